/-
  Pfb.C15.Lemmas — dictionary algebra, evaluation lemmas and the analysis of
  the binding loops of `_parse_auto_apply_args`.
-/
import Pfb.C15.Model
namespace Pfb.C15
open Pfb

/-! ### dictionaries -/

section dict
variable {α : Type}

theorem dget_none_iff (d : List (Str × α)) (k : Str) : dget d k = none ↔ ∀ p ∈ d, p.1 ≠ k := by
  induction d with
  | nil => simp [dget]
  | cons p r ih =>
    obtain ⟨k', v⟩ := p
    by_cases h : k' = k
    · simp [dget, h]
    · simp [dget, h, ih]

theorem dhas_cons (k' : Str) (v : α) (r : List (Str × α)) (k : Str) :
    dhas ((k', v) :: r) k = (decide (k' = k) || dhas r k) := by
  by_cases h : k' = k <;> simp [dhas, dget, h]

theorem dhas_iff (d : List (Str × α)) (k : Str) : dhas d k = true ↔ ∃ p ∈ d, p.1 = k := by
  induction d with
  | nil => simp [dhas, dget]
  | cons p r ih =>
    obtain ⟨k', v⟩ := p
    rw [dhas_cons]
    simp [ih]

theorem dhas_false_iff (d : List (Str × α)) (k : Str) : dhas d k = false ↔ ∀ p ∈ d, p.1 ≠ k := by
  unfold dhas
  rw [← dget_none_iff]
  cases dget d k <;> simp

theorem dget_mem {d : List (Str × α)} {k : Str} {v : α} (h : dget d k = some v) : (k, v) ∈ d := by
  induction d with
  | nil => simp [dget] at h
  | cons p r ih =>
    obtain ⟨k', v'⟩ := p
    by_cases hk : k' = k
    · simp [dget, hk] at h; subst h; subst hk; simp
    · simp [dget, hk] at h; exact List.mem_cons_of_mem _ (ih h)

theorem dget_dset_same (d : List (Str × α)) (k : Str) (v : α) : dget (dset d k v) k = some v := by
  induction d with
  | nil => simp [dset, dget]
  | cons p r ih =>
    obtain ⟨k', v'⟩ := p
    by_cases h : k' = k
    · simp [dset, dget, h]
    · simp [dset, dget, h, ih]

theorem dget_dset_other (d : List (Str × α)) (k k' : Str) (v : α) (h : k' ≠ k) :
    dget (dset d k v) k' = dget d k' := by
  induction d with
  | nil => simp [dset, dget, Ne.symm h]
  | cons p r ih =>
    obtain ⟨k'', v'⟩ := p
    by_cases h2 : k'' = k
    · subst h2; simp [dset, dget, Ne.symm h]
    · by_cases h3 : k'' = k'
      · subst h3; simp [dset, dget, h2]
      · simp [dset, dget, h2, h3, ih]

theorem dset_keys (d : List (Str × α)) (k : Str) (v : α) :
    ∀ p ∈ dset d k v, p.1 = k ∨ ∃ q ∈ d, q.1 = p.1 := by
  induction d with
  | nil => intro p hp; simp [dset] at hp; left; simp [hp]
  | cons q r ih =>
    obtain ⟨k', v'⟩ := q
    intro p hp
    by_cases h : k' = k
    · simp [dset, h] at hp
      rcases hp with rfl | hp
      · left; rfl
      · right; exact ⟨p, by simp [hp], rfl⟩
    · simp [dset, h] at hp
      rcases hp with rfl | hp
      · right; exact ⟨(k', v'), by simp, rfl⟩
      · rcases ih p hp with h1 | ⟨q, hq, hqk⟩
        · left; exact h1
        · right; exact ⟨q, by simp [hq], hqk⟩

theorem dget_foldl_dset (occ : List (Str × α)) (d : List (Str × α)) (k : Str) :
    dget (occ.foldl (fun d p => dset d p.1 p.2) d) k = (lastOcc occ k).or (dget d k) := by
  induction occ generalizing d with
  | nil => simp [lastOcc]
  | cons p r ih =>
    obtain ⟨k', v⟩ := p
    simp only [List.foldl_cons, lastOcc]
    rw [ih]
    cases h : lastOcc r k with
    | some x => simp
    | none =>
      by_cases hk : k' = k
      · subst hk; simp [dget_dset_same]
      · simp [hk, dget_dset_other _ _ _ _ (Ne.symm hk)]

/-- **last occurrence wins**: the dictionary built from the assignments in order
    returns for every key the value of its last assignment. -/
theorem dget_dictOf (occ : List (Str × α)) (k : Str) : dget (dictOf occ) k = lastOcc occ k := by
  unfold dictOf
  rw [dget_foldl_dset]; simp [dget]

theorem foldl_dset_keys (occ : List (Str × α)) (d : List (Str × α)) :
    ∀ p ∈ occ.foldl (fun d p => dset d p.1 p.2) d, (∃ q ∈ occ, q.1 = p.1) ∨ (∃ q ∈ d, q.1 = p.1) := by
  induction occ generalizing d with
  | nil => intro p hp; right; exact ⟨p, hp, rfl⟩
  | cons q r ih =>
    intro p hp
    simp only [List.foldl_cons] at hp
    rcases ih _ p hp with ⟨q', hq', h⟩ | ⟨q', hq', h⟩
    · left; exact ⟨q', by simp [hq'], h⟩
    · rcases dset_keys d q.1 q.2 q' hq' with h1 | ⟨q'', hq'', h2⟩
      · left; exact ⟨q, by simp, by rw [← h, h1]⟩
      · right; exact ⟨q'', hq'', by rw [h2, h]⟩

theorem dictOf_keys (occ : List (Str × α)) : ∀ p ∈ dictOf occ, ∃ q ∈ occ, q.1 = p.1 := by
  intro p hp
  rcases foldl_dset_keys occ [] p hp with h | ⟨q, hq, _⟩
  · exact h
  · simp at hq

theorem derase_cons (k' : Str) (v : α) (r : List (Str × α)) (a : Str) :
    derase ((k', v) :: r) a = if k' = a then derase r a else (k', v) :: derase r a := by
  by_cases h : k' = a <;> simp [derase, h]

theorem dget_derase (d : List (Str × α)) (a k : Str) :
    dget (derase d a) k = if k = a then none else dget d k := by
  induction d with
  | nil => simp [derase, dget]
  | cons p r ih =>
    obtain ⟨k', v⟩ := p
    rw [derase_cons]
    by_cases h1 : k' = a
    · subst h1
      by_cases h2 : k = k'
      · subst h2; simp [ih]
      · simp [h2, ih, dget, Ne.symm h2]
    · by_cases h2 : k = a
      · subst h2; simp [h1, dget, ih]
      · simp [h1, h2, dget, ih]

theorem dhas_derase_ne (d : List (Str × α)) (a k : Str) (h : k ≠ a) : dhas (derase d a) k = dhas d k := by
  simp [dhas, dget_derase, h]

theorem dhas_of_dhas_derase (d : List (Str × α)) (a k : Str) (h : dhas (derase d a) k = true) :
    dhas d k = true := by
  by_cases hk : k = a
  · simp [dhas, dget_derase, hk] at h
  · rwa [dhas_derase_ne _ _ _ hk] at h

end dict

/-! ### evaluation -/

theorem evalExpr_error (env : Env) (e : Expr) (x : PErr) (h : evalExpr env e = .error x) : x = .evalError := by
  cases e with
  | dflt n => simp [evalExpr] at h
  | user s m =>
    cases m with
    | string => simp [evalExpr] at h
    | eval =>
      simp only [evalExpr] at h
      split at h
      · simp at h; exact h.symm
      · split at h <;> simp at h; exact h.symm
    | auto =>
      simp only [evalExpr] at h
      split at h
      · simp at h
      · split at h
        · simp at h
        · split at h
          · simp at h
          · split at h <;> simp at h; exact h.symm

/-- What a delivered value can be: the very string, or its evaluation (never in
    string mode, never for a blank string, in auto mode only for a parsable
    one and only when the evaluator produced a value). -/
theorem evalExpr_user (env : Env) (s : Str) (m : Mode) (v : Val) (h : evalExpr env (.user s m) = .ok v) :
    v = .raw s ∨ (v = .evaluated s ∧ m ≠ .string ∧ blank s = false ∧ env.outcome s = .value
                  ∧ (m = .auto → env.parsable s = true ∧ env.compileRaises s = false)) := by
  cases m with
  | string => simp [evalExpr] at h; left; exact h.symm
  | eval =>
    simp only [evalExpr] at h
    split at h
    · simp at h
    · rename_i hb
      split at h
      · rename_i ho; simp at h; right; simp [← h, ho]; simpa using hb
      · simp at h
  | auto =>
    simp only [evalExpr] at h
    split at h
    · simp at h; left; exact h.symm
    · rename_i hb
      split at h
      · simp at h; left; exact h.symm
      · rename_i hc
        split at h
        · simp at h; left; exact h.symm
        · rename_i hp
          split at h
          · rename_i ho; simp at h; right; simp [← h, ho]; refine ⟨?_, ?_, ?_⟩
            · simpa using hb
            · simpa using hp
            · simpa using hc
          · simp at h; left; exact h.symm
          · simp at h

theorem evalExpr_auto_raw_reason (env : Env) (s : Str) (h : evalExpr env (.user s .auto) = .ok (.raw s)) :
    blank s = true ∨ env.compileRaises s = true ∨ env.parsable s = false ∨ env.outcome s = .unimportable := by
  simp only [evalExpr] at h
  split at h
  · left; assumption
  · split at h
    · rename_i hc; right; left; exact hc
    · split at h
      · rename_i hp; right; right; left; simpa using hp
      · split at h
        · simp at h
        · rename_i ho; right; right; right; exact ho
        · simp at h

/-- **The converse for text on which `compile()` gives up** (lone surrogates,
    too long / too deep): in auto mode it is delivered as the original string —
    never rejected, never altered — whatever the evaluator would do. -/
theorem evalExpr_auto_compile_raises (env : Env) (s : Str) (h : env.compileRaises s = true) :
    evalExpr env (.user s .auto) = .ok (.raw s) := by
  simp only [evalExpr]
  split
  · rfl
  · simp [h]

/-- … and likewise for blank and for unparsable text -/
theorem evalExpr_auto_unparsable (env : Env) (s : Str) (h : blank s = true ∨ env.parsable s = false) :
    evalExpr env (.user s .auto) = .ok (.raw s) := by
  simp only [evalExpr]
  split
  · rfl
  · split
    · rfl
    · rcases h with h | h
      · rename_i hb _; exact absurd h hb
      · simp [h]

theorem evalAll_append (env : Env) (l1 l2 : List Expr) :
    evalAll env (l1 ++ l2) =
      match evalAll env l1 with
      | .error e => .error e
      | .ok v1 => match evalAll env l2 with
        | .error e => .error e
        | .ok v2 => .ok (v1 ++ v2) := by
  induction l1 with
  | nil => simp [evalAll]; cases evalAll env l2 <;> rfl
  | cons e es ih =>
    simp only [List.cons_append, evalAll]
    cases evalExpr env e with
    | error x => rfl
    | ok v =>
      simp only [ih]
      cases evalAll env es with
      | error x => rfl
      | ok v1 =>
        cases evalAll env l2 <;> rfl

theorem evalAll_error (env : Env) (l : List Expr) (x : PErr) (h : evalAll env l = .error x) :
    x = .evalError ∧ ∃ e ∈ l, ∃ y, evalExpr env e = .error y := by
  induction l with
  | nil => simp [evalAll] at h
  | cons e es ih =>
    simp only [evalAll] at h
    cases he : evalExpr env e with
    | error y =>
      rw [he] at h; simp at h; subst h
      exact ⟨evalExpr_error env e y he, e, by simp, y, he⟩
    | ok v =>
      rw [he] at h
      cases hes : evalAll env es with
      | error y =>
        rw [hes] at h; simp at h; subst h
        obtain ⟨h1, e', he', hy⟩ := ih hes
        exact ⟨h1, e', by simp [he'], hy⟩
      | ok vs => rw [hes] at h; simp at h

theorem evalKw_error (env : Env) (l : Dict) (x : PErr) (h : evalKw env l = .error x) :
    x = .evalError ∧ ∃ p ∈ l, ∃ y, evalExpr env p.2 = .error y := by
  induction l with
  | nil => simp [evalKw] at h
  | cons p es ih =>
    obtain ⟨k, e⟩ := p
    simp only [evalKw] at h
    cases he : evalExpr env e with
    | error y =>
      rw [he] at h; simp at h; subst h
      exact ⟨evalExpr_error env e y he, (k, e), by simp, y, he⟩
    | ok v =>
      rw [he] at h
      cases hes : evalKw env es with
      | error y =>
        rw [hes] at h; simp at h; subst h
        obtain ⟨h1, p', hp', hy⟩ := ih hes
        exact ⟨h1, p', by simp [hp'], hy⟩
      | ok vs => rw [hes] at h; simp at h

theorem evalAll_length (env : Env) (l : List Expr) (vs : List Val) (h : evalAll env l = .ok vs) :
    vs.length = l.length := by
  induction l generalizing vs with
  | nil => simp [evalAll] at h; simp [← h]
  | cons e es ih =>
    simp only [evalAll] at h
    cases he : evalExpr env e with
    | error y => rw [he] at h; simp at h
    | ok v =>
      rw [he] at h
      cases hes : evalAll env es with
      | error y => rw [hes] at h; simp at h
      | ok ws => rw [hes] at h; simp at h; subst h; simp [ih ws hes]

/-- every evaluated value comes from one of the expressions -/
theorem evalAll_mem (env : Env) (l : List Expr) (vs : List Val) (h : evalAll env l = .ok vs) :
    ∀ v ∈ vs, ∃ e ∈ l, evalExpr env e = .ok v := by
  induction l generalizing vs with
  | nil => simp [evalAll] at h; subst h; simp
  | cons e es ih =>
    simp only [evalAll] at h
    cases he : evalExpr env e with
    | error y => rw [he] at h; simp at h
    | ok v =>
      rw [he] at h
      cases hes : evalAll env es with
      | error y => rw [hes] at h; simp at h
      | ok ws =>
        rw [hes] at h; simp at h; subst h
        intro x hx
        simp at hx
        rcases hx with rfl | hx
        · exact ⟨e, by simp, he⟩
        · obtain ⟨e', he', h'⟩ := ih ws hes x hx
          exact ⟨e', by simp [he'], h'⟩

theorem evalKw_mem (env : Env) (l : Dict) (vs : List (Str × Val)) (h : evalKw env l = .ok vs) :
    ∀ q ∈ vs, ∃ p ∈ l, p.1 = q.1 ∧ evalExpr env p.2 = .ok q.2 := by
  induction l generalizing vs with
  | nil => simp [evalKw] at h; subst h; simp
  | cons p es ih =>
    obtain ⟨k, e⟩ := p
    simp only [evalKw] at h
    cases he : evalExpr env e with
    | error y => rw [he] at h; simp at h
    | ok v =>
      rw [he] at h
      cases hes : evalKw env es with
      | error y => rw [hes] at h; simp at h
      | ok ws =>
        rw [hes] at h; simp at h; subst h
        intro x hx
        simp at hx
        rcases hx with rfl | hx
        · exact ⟨(k, e), by simp, rfl, he⟩
        · obtain ⟨e', he', h'⟩ := ih ws hes x hx
          exact ⟨e', by simp [he'], h'⟩

/-! ### the binding loops -/

/-- the expression chosen for each parameter that is not filled positionally -/
def argExprs (kw : Dict) (as : List Str) : List Expr := as.map (fun a => (dget kw a).getD (.dflt a))

theorem filter_not_contains_of_dget_none (kw : Dict) (a : Str) (as : List Str) (h : dget kw a = none) :
    kw.filter (fun p => !(a :: as).contains p.1) = kw.filter (fun p => !as.contains p.1) := by
  apply List.filter_congr
  intro p hp
  have := (dget_none_iff kw a).1 h p hp
  simp [this]

theorem derase_filter (kw : Dict) (a : Str) (as : List Str) :
    (derase kw a).filter (fun p => !as.contains p.1) = kw.filter (fun p => !(a :: as).contains p.1) := by
  unfold derase
  rw [List.filter_filter]
  apply List.filter_congr
  intro p _
  by_cases h : p.1 = a <;> simp [h]

theorem argExprs_derase (kw : Dict) (a : Str) (as : List Str) (h : a ∉ as) :
    argExprs (derase kw a) as = argExprs kw as := by
  unfold argExprs
  apply List.map_congr_left
  intro x hx
  have : x ≠ a := fun e => h (e ▸ hx)
  simp [dget_derase, this]

/-- When the call is well-formed for the positional parameters, the first loop
    evaluates, in order, the positional expressions and then — for every
    remaining parameter — the keyword expression or the default. -/
theorem bindArgs_spec (env : Env) (spec : ArgSpec) :
    ∀ (as : List Str) (pos : List Expr) (kw : Dict), as.Nodup →
      (∀ a ∈ as.take pos.length, dhas kw a = false) →
      (∀ a ∈ as.drop pos.length, dhas kw a = true ∨ hasDefault spec a = true) →
      bindArgs env spec as pos kw =
        match evalAll env (pos.take as.length ++ argExprs kw (as.drop pos.length)) with
        | .error e => .error e
        | .ok vs => .ok (vs, pos.drop as.length, kw.filter (fun p => !(as.drop pos.length).contains p.1)) := by
  intro as
  induction as with
  | nil =>
    intro pos kw _ _ _
    have : kw.filter (fun _ => true) = kw := List.filter_eq_self.2 (fun _ _ => rfl)
    simp [bindArgs, argExprs, evalAll, this]
  | cons a as ih =>
    intro pos kw hnd h1 h2
    have hnd' : as.Nodup := (List.nodup_cons.1 hnd).2
    have ha : a ∉ as := (List.nodup_cons.1 hnd).1
    cases pos with
    | cons p ps =>
      have hka : dhas kw a = false := h1 a (by simp)
      have h1' : ∀ x ∈ as.take ps.length, dhas kw x = false := fun x hx => h1 x (by simp [hx])
      have h2' : ∀ x ∈ as.drop ps.length, dhas kw x = true ∨ hasDefault spec x = true :=
        fun x hx => h2 x (by simpa using hx)
      simp only [bindArgs, hka, List.length_cons, List.take_succ_cons, List.drop_succ_cons, List.cons_append,
        evalAll, Bool.false_eq_true, if_false]
      cases evalExpr env p with
      | error e => rfl
      | ok v =>
        simp only [ih ps kw hnd' h1' h2']
        cases evalAll env (ps.take as.length ++ argExprs kw (as.drop ps.length)) with
        | error e => rfl
        | ok vs => rfl
    | nil =>
      simp only [List.length_nil, List.drop_zero, List.take_nil, List.nil_append, List.drop_nil] at h2 ⊢
      simp only [bindArgs, argExprs, List.map_cons, evalAll]
      have h2' : ∀ (kw' : Dict), (∀ x ∈ as, dhas kw' x = dhas kw x) →
          ∀ x ∈ as.drop ([] : List Expr).length, dhas kw' x = true ∨ hasDefault spec x = true := by
        intro kw' hk x hx
        simp at hx
        rw [hk x hx]; exact h2 x (by simp [hx])
      cases hg : dget kw a with
      | some e =>
        simp only [Option.getD_some]
        cases evalExpr env e with
        | error x => rfl
        | ok v =>
          have hk : ∀ x ∈ as, dhas (derase kw a) x = dhas kw x := by
            intro x hx; exact dhas_derase_ne _ _ _ (by intro e; subst e; exact ha hx)
          have := ih [] (derase kw a) hnd' (by simp) (h2' _ hk)
          simp only [List.length_nil, List.drop_zero, List.take_nil, List.nil_append, List.drop_nil] at this
          rw [this, argExprs_derase _ _ _ ha, derase_filter]
          unfold argExprs
          cases evalAll env (as.map fun a => (dget kw a).getD (.dflt a)) with
          | error x => rfl
          | ok vs => rfl
      | none =>
        have hd : hasDefault spec a = true := by
          rcases h2 a (by simp) with h | h
          · simp [dhas, hg] at h
          · exact h
        simp only [hd, if_true, Option.getD_none, evalExpr]
        have := ih [] kw hnd' (by simp) (h2' _ (fun _ _ => rfl))
        simp only [List.length_nil, List.drop_zero, List.take_nil, List.nil_append, List.drop_nil] at this
        rw [this, filter_not_contains_of_dget_none _ _ _ hg]
        unfold argExprs
        cases evalAll env (as.map fun a => (dget kw a).getD (.dflt a)) with
        | error x => rfl
        | ok vs => rfl

theorem bindKwonly_spec (env : Env) (spec : ArgSpec) :
    ∀ (as : List Str) (kw : Dict), as.Nodup →
      (∀ a ∈ as, dhas kw a = true ∨ hasDefault spec a = true) →
      bindKwonly env spec as kw =
        match evalAll env (argExprs kw as) with
        | .error e => .error e
        | .ok vs => .ok (as.zip vs, kw.filter (fun p => !as.contains p.1)) := by
  intro as
  induction as with
  | nil =>
    intro kw _ _
    have : kw.filter (fun _ => true) = kw := List.filter_eq_self.2 (fun _ _ => rfl)
    simp [bindKwonly, argExprs, evalAll, this]
  | cons a as ih =>
    intro kw hnd h2
    have hnd' : as.Nodup := (List.nodup_cons.1 hnd).2
    have ha : a ∉ as := (List.nodup_cons.1 hnd).1
    simp only [bindKwonly, argExprs, List.map_cons, evalAll]
    cases hg : dget kw a with
    | some e =>
      simp only [Option.getD_some]
      cases evalExpr env e with
      | error x => rfl
      | ok v =>
        have hk : ∀ x ∈ as, dhas (derase kw a) x = true ∨ hasDefault spec x = true := by
          intro x hx
          rw [dhas_derase_ne _ _ _ (by intro e; subst e; exact ha hx)]; exact h2 x (by simp [hx])
        rw [ih (derase kw a) hnd' hk, argExprs_derase _ _ _ ha, derase_filter]
        unfold argExprs
        cases evalAll env (as.map fun a => (dget kw a).getD (.dflt a)) with
        | error x => rfl
        | ok vs => rfl
    | none =>
      have hd : hasDefault spec a = true := by
        rcases h2 a (by simp) with h | h
        · simp [dhas, hg] at h
        · exact h
      simp only [hd, if_true, Option.getD_none, evalExpr]
      rw [ih kw hnd' (fun x hx => h2 x (by simp [hx])), filter_not_contains_of_dget_none _ _ _ hg]
      unfold argExprs
      cases evalAll env (as.map fun a => (dget kw a).getD (.dflt a)) with
      | error x => rfl
      | ok vs => rfl

theorem derase_subset (kw : Dict) (a : Str) : ∀ p ∈ derase kw a, p ∈ kw :=
  fun p hp => (List.mem_filter.1 hp).1

theorem EvalFails.of_derase {env : Env} {kw : Dict} {a : Str} (h : EvalFails env [] (derase kw a)) :
    EvalFails env [] kw := by
  obtain ⟨e, hsrc, hy⟩ := h
  rcases hsrc with h | ⟨k, hk⟩
  · simp at h
  · exact ⟨e, Or.inr ⟨k, derase_subset kw a _ hk⟩, hy⟩

/-- the first loop only succeeds on a call that is well-formed for the positional parameters -/
theorem bindArgs_ok (env : Env) (spec : ArgSpec) :
    ∀ (as : List Str) (pos : List Expr) (kw : Dict) r, bindArgs env spec as pos kw = .ok r →
      (∀ a ∈ as.take pos.length, dhas kw a = false) ∧
      (∀ a ∈ as.drop pos.length, dhas kw a = true ∨ hasDefault spec a = true) := by
  intro as
  induction as with
  | nil => intro pos kw r _; simp
  | cons a as ih =>
    intro pos kw r h
    cases pos with
    | cons p ps =>
      simp only [bindArgs] at h
      split at h
      · simp at h
      · rename_i hka
        cases he : evalExpr env p with
        | error x => rw [he] at h; simp at h
        | ok v =>
          rw [he] at h
          cases hr : bindArgs env spec as ps kw with
          | error x => rw [hr] at h; simp [consArg] at h
          | ok r' =>
            obtain ⟨i1, i2⟩ := ih ps kw r' hr
            constructor
            · intro x hx
              simp at hx
              rcases hx with rfl | hx
              · simpa using hka
              · exact i1 x hx
            · intro x hx
              exact i2 x (by simpa using hx)
    | nil =>
      simp only [bindArgs] at h
      refine ⟨by simp, ?_⟩
      intro x hx
      simp at hx
      cases hg : dget kw a with
      | some e =>
        simp only [hg] at h
        rcases hx with rfl | hx
        · left; simp [dhas, hg]
        · cases he : evalExpr env e with
          | error y => rw [he] at h; simp at h
          | ok v =>
            rw [he] at h
            cases hr : bindArgs env spec as [] (derase kw a) with
            | error y => rw [hr] at h; simp [consArg] at h
            | ok r' =>
              rcases (ih [] _ r' hr).2 x (by simpa using hx) with h3 | h3
              · left; exact dhas_of_dhas_derase _ _ _ h3
              · right; exact h3
      | none =>
        simp only [hg] at h
        split at h
        · rename_i hd
          rcases hx with rfl | hx
          · right; exact hd
          · cases hr : bindArgs env spec as [] kw with
            | error y => rw [hr] at h; simp [consArg] at h
            | ok r' => exact (ih [] _ r' hr).2 x (by simpa using hx)
        · simp at h

/-- … and when it fails it names a reason that is present -/
theorem bindArgs_err (env : Env) (spec : ArgSpec) :
    ∀ (as : List Str) (pos : List Expr) (kw : Dict) x, as.Nodup → bindArgs env spec as pos kw = .error x →
      (x = .evalError ∧ EvalFails env pos kw) ∨
      (x = .bothPosKw ∧ ∃ a ∈ as.take pos.length, dhas kw a = true) ∨
      (x = .missingRequired ∧ ∃ a ∈ as.drop pos.length, dhas kw a = false ∧ hasDefault spec a = false) := by
  intro as
  induction as with
  | nil => intro pos kw x _ h; simp [bindArgs] at h
  | cons a as ih =>
    intro pos kw x hnd h
    have hnd' : as.Nodup := (List.nodup_cons.1 hnd).2
    have ha : a ∉ as := (List.nodup_cons.1 hnd).1
    cases pos with
    | cons p ps =>
      simp only [bindArgs] at h
      split at h
      · rename_i hka
        simp at h; subst h
        right; left; exact ⟨rfl, a, by simp, hka⟩
      · cases he : evalExpr env p with
        | error y =>
          rw [he] at h; simp at h; subst h; left
          exact ⟨evalExpr_error _ _ _ he, p, Or.inl (by simp), _, he⟩
        | ok v =>
          rw [he] at h
          cases hr : bindArgs env spec as ps kw with
          | ok r' => rw [hr] at h; obtain ⟨_, _, _⟩ := r'; simp [consArg] at h
          | error y =>
            rw [hr] at h; simp [consArg] at h; subst h
            rcases ih ps kw y hnd' hr with ⟨h1, e, hsrc, hy⟩ | ⟨h1, b, hb, hb2⟩ | ⟨h1, b, hb, hb2⟩
            · left; exact ⟨h1, e, hsrc.imp (fun h => by simp [h]) id, hy⟩
            · right; left; exact ⟨h1, b, by simp [hb], hb2⟩
            · right; right; exact ⟨h1, b, by simpa using hb, hb2⟩
    | nil =>
      simp only [bindArgs] at h
      cases hg : dget kw a with
      | some e =>
        simp only [hg] at h
        cases he : evalExpr env e with
        | error y =>
          rw [he] at h; simp at h; subst h; left
          exact ⟨evalExpr_error _ _ _ he, e, Or.inr ⟨a, dget_mem hg⟩, _, he⟩
        | ok v =>
          rw [he] at h
          cases hr : bindArgs env spec as [] (derase kw a) with
          | ok r' => rw [hr] at h; obtain ⟨_, _, _⟩ := r'; simp [consArg] at h
          | error y =>
            rw [hr] at h; simp [consArg] at h; subst h
            rcases ih [] _ y hnd' hr with h1 | ⟨_, b, hb, _⟩ | ⟨h1, b, hb, hb2, hb3⟩
            · left; exact ⟨h1.1, h1.2.of_derase⟩
            · simp at hb
            · right; right
              simp at hb
              refine ⟨h1, b, by simp [hb], ?_, hb3⟩
              rwa [dhas_derase_ne _ _ _ (by intro e; subst e; exact ha hb)] at hb2
      | none =>
        simp only [hg] at h
        split at h
        · cases hr : bindArgs env spec as [] kw with
          | ok r' => rw [hr] at h; obtain ⟨_, _, _⟩ := r'; simp [consArg] at h
          | error y =>
            rw [hr] at h; simp [consArg] at h; subst h
            rcases ih [] _ y hnd' hr with h1 | ⟨_, b, hb, _⟩ | ⟨h1, b, hb, hb2, hb3⟩
            · left; exact h1
            · simp at hb
            · right; right
              simp at hb
              exact ⟨h1, b, by simp [hb], hb2, hb3⟩
        · rename_i hd
          simp at h; subst h
          right; right
          exact ⟨rfl, a, by simp, by simp [dhas, hg], by simpa using hd⟩

theorem bindKwonly_ok (env : Env) (spec : ArgSpec) :
    ∀ (as : List Str) (kw : Dict) r, bindKwonly env spec as kw = .ok r →
      ∀ a ∈ as, dhas kw a = true ∨ hasDefault spec a = true := by
  intro as
  induction as with
  | nil => intro kw r _; simp
  | cons a as ih =>
    intro kw r h x hx
    simp only [bindKwonly] at h
    simp at hx
    cases hg : dget kw a with
    | some e =>
      simp only [hg] at h
      rcases hx with rfl | hx
      · left; simp [dhas, hg]
      · cases he : evalExpr env e with
        | error y => rw [he] at h; simp at h
        | ok v =>
          rw [he] at h
          cases hr : bindKwonly env spec as (derase kw a) with
          | error y => rw [hr] at h; simp [consKw] at h
          | ok r' =>
            rcases ih _ r' hr x hx with h3 | h3
            · left; exact dhas_of_dhas_derase _ _ _ h3
            · right; exact h3
    | none =>
      simp only [hg] at h
      split at h
      · rename_i hd
        rcases hx with rfl | hx
        · right; exact hd
        · cases hr : bindKwonly env spec as kw with
          | error y => rw [hr] at h; simp [consKw] at h
          | ok r' => exact ih _ r' hr x hx
      · simp at h

theorem bindKwonly_err (env : Env) (spec : ArgSpec) :
    ∀ (as : List Str) (kw : Dict) x, as.Nodup → bindKwonly env spec as kw = .error x →
      (x = .evalError ∧ EvalFails env [] kw) ∨
      (x = .missingRequiredKw ∧ ∃ a ∈ as, dhas kw a = false ∧ hasDefault spec a = false) := by
  intro as
  induction as with
  | nil => intro kw x _ h; simp [bindKwonly] at h
  | cons a as ih =>
    intro kw x hnd h
    have hnd' : as.Nodup := (List.nodup_cons.1 hnd).2
    have ha : a ∉ as := (List.nodup_cons.1 hnd).1
    simp only [bindKwonly] at h
    cases hg : dget kw a with
    | some e =>
      simp only [hg] at h
      cases he : evalExpr env e with
      | error y =>
        rw [he] at h; simp at h; subst h; left
        exact ⟨evalExpr_error _ _ _ he, e, Or.inr ⟨a, dget_mem hg⟩, _, he⟩
      | ok v =>
        rw [he] at h
        cases hr : bindKwonly env spec as (derase kw a) with
        | ok r' => rw [hr] at h; obtain ⟨_, _⟩ := r'; simp [consKw] at h
        | error y =>
          rw [hr] at h; simp [consKw] at h; subst h
          rcases ih _ y hnd' hr with h1 | ⟨h1, b, hb, hb2, hb3⟩
          · left; exact ⟨h1.1, h1.2.of_derase⟩
          · right
            refine ⟨h1, b, by simp [hb], ?_, hb3⟩
            rwa [dhas_derase_ne _ _ _ (by intro e; subst e; exact ha hb)] at hb2
    | none =>
      simp only [hg] at h
      split at h
      · cases hr : bindKwonly env spec as kw with
        | ok r' => rw [hr] at h; obtain ⟨_, _⟩ := r'; simp [consKw] at h
        | error y =>
          rw [hr] at h; simp [consKw] at h; subst h
          rcases ih _ y hnd' hr with h1 | ⟨h1, b, hb, hb2, hb3⟩
          · left; exact h1
          · right; exact ⟨h1, b, by simp [hb], hb2, hb3⟩
      · rename_i hd
        simp at h; subst h
        right
        exact ⟨rfl, a, by simp, by simp [dhas, hg], by simpa using hd⟩

theorem dget_filter_keys (kw : Dict) (f : Str → Bool) (a : Str) :
    dget (kw.filter (fun p => f p.1)) a = if f a then dget kw a else none := by
  induction kw with
  | nil => simp [dget]
  | cons p r ih =>
    obtain ⟨k, v⟩ := p
    by_cases hk : k = a
    · subst hk
      by_cases hf : f k <;> simp [List.filter_cons, hf, dget, ih]
    · by_cases hf : f k <;> simp [List.filter_cons, hf, dget, hk, ih]

/-! ### well-formed signatures -/

theorem WF.args_nodup {spec : ArgSpec} (h : WF spec) : spec.args.Nodup :=
  (List.nodup_append.1 h.1).1

theorem WF.kwonly_nodup {spec : ArgSpec} (h : WF spec) : spec.kwonly.Nodup :=
  (List.nodup_append.1 h.1).2.1

theorem WF.disjoint {spec : ArgSpec} (h : WF spec) {a : Str} (h1 : a ∈ spec.args) (h2 : a ∈ spec.kwonly) : False :=
  (List.nodup_append.1 h.1).2.2 a h1 a h2 rfl

theorem hasDefault_arg {spec : ArgSpec} (h : WF spec) {a : Str} (ha : a ∈ spec.args) :
    hasDefault spec a = posDefault spec a := by
  unfold hasDefault posDefault
  by_cases hk : a ∈ spec.kwdefaults
  · exact (h.disjoint ha (h.2 a hk)).elim
  · simp [hk]

theorem hasDefault_kwonly {spec : ArgSpec} (h : WF spec) {a : Str} (ha : a ∈ spec.kwonly) :
    hasDefault spec a = spec.kwdefaults.contains a := by
  unfold hasDefault
  by_cases hk : a ∈ spec.args.drop (spec.args.length - spec.ndefaults)
  · exact (h.disjoint (List.mem_of_mem_drop hk) ha).elim
  · simp [hk]

theorem bindArgs_left_subset (spec : ArgSpec) (env : Env) : ∀ (as : List Str) (pos : List Expr) (kw : Dict) vs l kw',
    bindArgs env spec as pos kw = .ok (vs, l, kw') → (∀ e ∈ l, e ∈ pos) ∧ (∀ p ∈ kw', p ∈ kw) := by
  intro as
  induction as with
  | nil =>
    intro pos kw vs l kw' h
    simp only [bindArgs, Except.ok.injEq, Prod.mk.injEq] at h
    obtain ⟨_, rfl, rfl⟩ := h
    exact ⟨fun _ h => h, fun _ h => h⟩
  | cons a as ih =>
    intro pos kw vs l kw' h
    have step : ∀ v (r : Except PErr (List Val × List Expr × Dict)), consArg v r = .ok (vs, l, kw') →
        ∃ vs', r = .ok (vs', l, kw') := by
      intro v r hr
      cases r with
      | error x => cases hr
      | ok t =>
        obtain ⟨a1, a2, a3⟩ := t
        simp only [consArg, Except.ok.injEq, Prod.mk.injEq] at hr
        obtain ⟨_, rfl, rfl⟩ := hr
        exact ⟨a1, rfl⟩
    cases pos with
    | cons p ps =>
      simp only [bindArgs] at h
      split at h
      · cases h
      · cases he : evalExpr env p with
        | error x => rw [he] at h; cases h
        | ok v =>
          rw [he] at h
          obtain ⟨vs', hr⟩ := step _ _ h
          obtain ⟨i1, i2⟩ := ih ps kw vs' l kw' hr
          exact ⟨fun e he' => by simp [i1 e he'], i2⟩
    | nil =>
      simp only [bindArgs] at h
      cases hg : dget kw a with
      | some e =>
        simp only [hg] at h
        cases he : evalExpr env e with
        | error x => rw [he] at h; cases h
        | ok v =>
          rw [he] at h
          obtain ⟨vs', hr⟩ := step _ _ h
          obtain ⟨i1, i2⟩ := ih [] _ vs' l kw' hr
          exact ⟨i1, fun p hp => derase_subset kw a p (i2 p hp)⟩
      | none =>
        simp only [hg] at h
        split at h
        · obtain ⟨vs', hr⟩ := step _ _ h
          exact ih [] _ vs' l kw' hr
        · cases h

theorem bindKwonly_left_subset (spec : ArgSpec) (env : Env) : ∀ (as : List Str) (kw : Dict) vs kw',
    bindKwonly env spec as kw = .ok (vs, kw') → ∀ p ∈ kw', p ∈ kw := by
  intro as
  induction as with
  | nil =>
    intro kw vs kw' h
    simp only [bindKwonly, Except.ok.injEq, Prod.mk.injEq] at h
    obtain ⟨_, rfl⟩ := h
    exact fun _ h => h
  | cons a as ih =>
    intro kw vs kw' h
    have step : ∀ v (r : Except PErr (List (Str × Val) × Dict)), consKw a v r = .ok (vs, kw') →
        ∃ vs', r = .ok (vs', kw') := by
      intro v r hr
      cases r with
      | error x => cases hr
      | ok t =>
        obtain ⟨a1, a2⟩ := t
        simp only [consKw, Except.ok.injEq, Prod.mk.injEq] at hr
        obtain ⟨_, rfl⟩ := hr
        exact ⟨a1, rfl⟩
    simp only [bindKwonly] at h
    cases hg : dget kw a with
    | some e =>
      simp only [hg] at h
      cases he : evalExpr env e with
      | error x => rw [he] at h; cases h
      | ok v =>
        rw [he] at h
        obtain ⟨vs', hr⟩ := step _ _ h
        exact fun p hp => derase_subset kw a p (ih _ vs' kw' hr p hp)
    | none =>
      simp only [hg] at h
      split at h
      · obtain ⟨vs', hr⟩ := step _ _ h
        exact ih _ vs' kw' hr
      · cases h

/-! ### the option loop, provenance, printing-then-parsing (helpers of `Pfb.C15.Props`) -/


theorem bindPhase_of_pyBind_ok (env : Env) (spec : ArgSpec) (hwf : WF spec) (pos : List Expr) (kw : Dict)
    (b : Binding Expr) (h : pyBind spec Expr.dflt pos kw = .ok b) :
    bindPhase env spec pos kw = evalBinding env spec b := by
  unfold pyBind at h
  simp only [] at h
  split at h
  · simp at h
  rename_i c1
  split at h
  · simp at h
  rename_i c2
  split at h
  · simp at h
  rename_i c3
  split at h
  · simp at h
  rename_i c4
  split at h
  · simp at h
  simp only [Except.ok.injEq] at h
  subst h
  -- the conditions in usable form
  have c2' : ∀ a ∈ spec.args.take pos.length, dhas kw a = false := by
    intro a ha
    cases hd : dhas kw a with
    | false => rfl
    | true => exact absurd (List.any_eq_true.2 ⟨a, ha, hd⟩) c2
  have c3' : ∀ a ∈ spec.args.drop pos.length, dhas kw a = true ∨ hasDefault spec a = true := by
    intro a ha
    rw [hasDefault_arg hwf (List.mem_of_mem_drop ha)]
    cases hd : dhas kw a with
    | true => left; rfl
    | false =>
      right
      cases hp : posDefault spec a with
      | true => rfl
      | false => exact absurd (List.any_eq_true.2 ⟨a, ha, by simp [hd, hp]⟩) c3
  have c4' : ∀ a ∈ spec.kwonly, dhas kw a = true ∨ spec.kwdefaults.contains a = true := by
    intro a ha
    cases hd : dhas kw a with
    | true => left; rfl
    | false =>
      right
      cases hp : spec.kwdefaults.contains a with
      | true => rfl
      | false => exact absurd (List.any_eq_true.2 ⟨a, ha, by rw [hd, hp]; rfl⟩) c4
  -- keyword-only parameters are untouched by the first loop
  have hnotin : ∀ a ∈ spec.kwonly, (spec.args.drop pos.length).contains a = false := by
    intro a ha
    cases hc : (spec.args.drop pos.length).contains a with
    | false => rfl
    | true => exact (hwf.disjoint (List.mem_of_mem_drop (by simpa using hc)) ha).elim
  have hdget1 : ∀ a ∈ spec.kwonly,
      dget (kw.filter (fun p => !(spec.args.drop pos.length).contains p.1)) a = dget kw a := by
    intro a ha
    rw [dget_filter_keys kw (fun k => !(spec.args.drop pos.length).contains k) a]
    simp only [hnotin a ha, Bool.not_false, if_true]
  have c4'' : ∀ a ∈ spec.kwonly,
      dhas (kw.filter (fun p => !(spec.args.drop pos.length).contains p.1)) a = true ∨ hasDefault spec a = true := by
    intro a ha
    rw [hasDefault_kwonly hwf ha]
    unfold dhas
    rw [hdget1 a ha]
    exact c4' a ha
  have hkwexprs : argExprs (kw.filter (fun p => !(spec.args.drop pos.length).contains p.1)) spec.kwonly
      = spec.kwonly.map (fun a => (dget kw a).getD (.dflt a)) := by
    unfold argExprs
    apply List.map_congr_left
    intro a ha
    rw [hdget1 a ha]
  have hss : (kw.filter (fun p => !(spec.args.drop pos.length).contains p.1)).filter
        (fun p => !spec.kwonly.contains p.1) = kw.filter (fun p => !spec.names.contains p.1) := by
    rw [List.filter_filter]
    apply List.filter_congr
    intro p hp
    have hnt : p.1 ∉ spec.args.take pos.length := by
      intro hin
      have := c2' p.1 hin
      rw [dhas_false_iff] at this
      exact this p hp rfl
    have hsplit : p.1 ∈ spec.args ↔ p.1 ∈ spec.args.drop pos.length := by
      constructor
      · intro hin
        rw [← List.take_append_drop pos.length spec.args] at hin
        rcases List.mem_append.1 hin with h1 | h1
        · exact absurd h1 hnt
        · exact h1
      · exact List.mem_of_mem_drop
    unfold ArgSpec.names
    by_cases h1 : p.1 ∈ spec.args
    · simp [h1, hsplit.1 h1]
    · have : p.1 ∉ spec.args.drop pos.length := fun hh => h1 (hsplit.2 hh)
      simp [h1, this]
  unfold bindPhase evalBinding
  rw [bindArgs_spec env spec spec.args pos kw hwf.args_nodup c2' c3']
  unfold argExprs
  cases hA : evalAll env (pos.take spec.args.length ++
      (spec.args.drop pos.length).map fun a => (dget kw a).getD (.dflt a)) with
  | error e => rfl
  | ok vs =>
    simp only []
    rw [bindKwonly_spec env spec spec.kwonly _ hwf.kwonly_nodup c4'', hkwexprs]
    cases hK : evalAll env (spec.kwonly.map fun a => (dget kw a).getD (.dflt a)) with
    | error e => rfl
    | ok ks =>
      simp only [hss]
      have hextra : (if (pos.drop spec.args.length).isEmpty then (Except.ok [] : Except PErr (List Val))
            else if spec.varargs then evalAll env (pos.drop spec.args.length) else .error .tooManyPos)
          = evalAll env (pos.drop spec.args.length) := by
        cases hl : pos.drop spec.args.length with
        | nil => simp [evalAll]
        | cons x xs =>
          have hlen : pos.length > spec.args.length := by
            have : (pos.drop spec.args.length).length > 0 := by rw [hl]; simp
            simp at this; omega
          have hv : spec.varargs = true := by
            cases hv : spec.varargs with
            | true => rfl
            | false => exact absurd (by simp [hlen, hv]) c1
          simp [hv]
      rw [hextra]

theorem bindPhase_sound (env : Env) (spec : ArgSpec) (hwf : WF spec) (pos : List Expr) (kw : Dict)
    (hk : KeysOk spec kw) :
    (∀ r, bindPhase env spec pos kw = .ok r → ∃ b, pyBind spec Expr.dflt pos kw = .ok b) ∧
    (∀ e, bindPhase env spec pos kw = .error e → Reason env spec pos kw e) := by
  cases h1 : bindArgs env spec spec.args pos kw with
  | error x =>
    constructor
    · intro r hr; simp [bindPhase, h1] at hr
    · intro e he
      simp only [bindPhase, h1] at he
      simp only [Except.error.injEq] at he
      subst he
      rcases bindArgs_err env spec spec.args pos kw x hwf.args_nodup h1 with h | ⟨h, a, ha, hd⟩ | ⟨h, a, ha, hd, hdef⟩
      · left; exact h
      · right; left; exact ⟨h, a, ha, hd⟩
      · right; right; left
        refine ⟨h, a, ha, hd, ?_⟩
        rwa [hasDefault_arg hwf (List.mem_of_mem_drop ha)] at hdef
  | ok r1 =>
    obtain ⟨c2', c3'⟩ := bindArgs_ok env spec spec.args pos kw r1 h1
    have hspec := bindArgs_spec env spec spec.args pos kw hwf.args_nodup c2' c3'
    rw [h1] at hspec
    cases hA : evalAll env (pos.take spec.args.length ++ argExprs kw (spec.args.drop pos.length)) with
    | error x => rw [hA] at hspec; simp at hspec
    | ok vs =>
      rw [hA] at hspec
      simp only [Except.ok.injEq] at hspec
      subst hspec
      -- facts about the dictionary handed to the second loop
      have hdget1 : ∀ a ∈ spec.kwonly,
          dget (kw.filter (fun p => !(spec.args.drop pos.length).contains p.1)) a = dget kw a := by
        intro a ha
        have hn : (spec.args.drop pos.length).contains a = false := by
          cases hc : (spec.args.drop pos.length).contains a with
          | false => rfl
          | true => exact (hwf.disjoint (List.mem_of_mem_drop (by simpa using hc)) ha).elim
        rw [dget_filter_keys kw (fun k => !(spec.args.drop pos.length).contains k) a]
        simp only [hn, Bool.not_false, if_true]
      have hdhas1 : ∀ a ∈ spec.kwonly,
          dhas (kw.filter (fun p => !(spec.args.drop pos.length).contains p.1)) a = dhas kw a := by
        intro a ha; unfold dhas; rw [hdget1 a ha]
      -- the pyBind conditions that the first loop established
      have hc2 : (spec.args.take pos.length).any (fun a => dhas kw a) = false := by
        cases hh : (spec.args.take pos.length).any (fun a => dhas kw a) with
        | false => rfl
        | true =>
          obtain ⟨a, ha, hd⟩ := List.any_eq_true.1 hh
          rw [c2' a ha] at hd; simp at hd
      have hc3 : (spec.args.drop pos.length).any (fun a => !dhas kw a && !posDefault spec a) = false := by
        cases hh : (spec.args.drop pos.length).any (fun a => !dhas kw a && !posDefault spec a) with
        | false => rfl
        | true =>
          obtain ⟨a, ha, hd⟩ := List.any_eq_true.1 hh
          have := c3' a ha
          rw [hasDefault_arg hwf (List.mem_of_mem_drop ha)] at this
          rcases this with h | h <;> simp [h] at hd
      have hc5 : (!spec.varkw && kw.any (fun p => !spec.names.contains p.1)) = false := by
        rcases hk with h | h
        · simp [h]
        · cases hh : kw.any (fun p => !spec.names.contains p.1) with
          | false => simp
          | true =>
            obtain ⟨p, hp, hd⟩ := List.any_eq_true.1 hh
            have := h p hp
            simp [this] at hd
      cases h2 : bindKwonly env spec spec.kwonly
          (kw.filter (fun p => !(spec.args.drop pos.length).contains p.1)) with
      | error x =>
        constructor
        · intro r hr; simp only [bindPhase, h1, h2] at hr; cases hr
        · intro e he
          simp only [bindPhase, h1, h2] at he
          simp only [Except.error.injEq] at he
          subst he
          rcases bindKwonly_err env spec spec.kwonly _ x hwf.kwonly_nodup h2 with h | ⟨h, a, ha, hd, hdef⟩
          · left
            obtain ⟨h1, e, hsrc, hy⟩ := h
            rcases hsrc with hh | ⟨k, hk⟩
            · simp at hh
            · exact ⟨h1, e, Or.inr ⟨k, (List.mem_filter.1 hk).1⟩, hy⟩
          · right; right; right; left
            refine ⟨h, a, ha, ?_, ?_⟩
            · rwa [hdhas1 a ha] at hd
            · rwa [hasDefault_kwonly hwf ha] at hdef
      | ok r2 =>
        have c4' := bindKwonly_ok env spec spec.kwonly _ r2 h2
        have hc4 : spec.kwonly.any (fun a => !dhas kw a && !spec.kwdefaults.contains a) = false := by
          cases hh : spec.kwonly.any (fun a => !dhas kw a && !spec.kwdefaults.contains a) with
          | false => rfl
          | true =>
            obtain ⟨a, ha, hd⟩ := List.any_eq_true.1 hh
            have := c4' a ha
            rw [hdhas1 a ha, hasDefault_kwonly hwf ha] at this
            rcases this with h | h
            · rw [h] at hd; simp at hd
            · rw [h] at hd; simp at hd
        obtain ⟨kvs, kw2⟩ := r2
        have hsub2 : ∀ p ∈ kw2, p ∈ kw := fun p hp =>
          (List.mem_filter.1 (bindKwonly_left_subset spec env spec.kwonly _ kvs kw2 h2 p hp)).1
        have hkwfail : ∀ x, evalKw env kw2 = .error x → x = .evalError ∧ EvalFails env pos kw := by
          intro x hx
          obtain ⟨h1, p, hp, hy⟩ := evalKw_error env kw2 x hx
          exact ⟨h1, p.2, Or.inr ⟨p.1, hsub2 p hp⟩, hy⟩
        by_cases hl : (pos.drop spec.args.length).isEmpty = true
        · -- no extra positional arguments
          have hc1 : (decide (pos.length > spec.args.length) && !spec.varargs) = false := by
            have : pos.length ≤ spec.args.length := by
              have := List.isEmpty_iff.1 hl
              have h3 := congrArg List.length this
              simp at h3; omega
            simp; intro h; omega
          constructor
          · intro r _
            unfold pyBind
            simp only [hc1, hc2, hc3, hc4, hc5]
            exact ⟨_, rfl⟩
          · intro e he
            simp only [bindPhase, h1, h2, hl, if_true] at he
            cases hR : evalKw env kw2 with
            | error x => rw [hR] at he; simp at he; subst he; left; exact hkwfail _ hR
            | ok rest => rw [hR] at he; simp at he
        · by_cases hv : spec.varargs = true
          · have hc1 : (decide (pos.length > spec.args.length) && !spec.varargs) = false := by simp [hv]
            constructor
            · intro r _
              unfold pyBind
              simp only [hc1, hc2, hc3, hc4, hc5]
              exact ⟨_, rfl⟩
            · intro e he
              simp only [bindPhase, h1, h2, hl, hv, if_true] at he
              cases hS : evalAll env (pos.drop spec.args.length) with
              | error x =>
                rw [hS] at he; simp at he; subst he; left
                obtain ⟨h1, e', he', hy⟩ := evalAll_error env _ _ hS
                exact ⟨h1, e', Or.inl (List.mem_of_mem_drop he'), hy⟩
              | ok xs =>
                rw [hS] at he
                cases hR : evalKw env kw2 with
                | error x => rw [hR] at he; simp at he; subst he; left; exact hkwfail _ hR
                | ok rest => rw [hR] at he; simp at he
          · have hl' : (pos.drop spec.args.length).isEmpty = false := by
              cases hh : (pos.drop spec.args.length).isEmpty with
              | false => rfl
              | true => exact absurd hh hl
            have hv' : spec.varargs = false := by
              cases hh : spec.varargs with
              | false => rfl
              | true => exact absurd hh hv
            constructor
            · intro r hr
              simp only [bindPhase, h1, h2, hl', hv', Bool.false_eq_true, if_false] at hr
              cases hr
            · intro e he
              simp only [bindPhase, h1, h2, hl', hv', Bool.false_eq_true, if_false] at he
              simp only [Except.error.injEq] at he
              subst he
              right; right; right; right
              refine ⟨rfl, ?_, by simpa using hv⟩
              have : pos.drop spec.args.length ≠ [] := by
                intro h; exact hl (by simp [h])
              have h3 : (pos.drop spec.args.length).length > 0 := List.length_pos_iff.2 this
              simp at h3; omega

theorem resolveOpt_bound (env : Env) (spec : ArgSpec) (n : Str) (eq : Bool) (m : Str)
    (h : resolveOpt env spec n eq = .bound m) : m ∈ spec.names ∨ spec.varkw = true := by
  unfold resolveOpt at h
  simp only [] at h
  split at h
  · rename_i m' hms
    simp only [Res.bound.injEq] at h
    subst h
    left
    split at hms
    · rename_i hc
      simp only [List.cons.injEq, and_true] at hms
      subst hms
      simp only [Bool.and_eq_true] at hc
      have : n ∈ matched spec n := by simpa using hc.2
      exact (List.mem_filter.1 this).1
    · have : m' ∈ matched spec n := by rw [hms]; simp
      exact (List.mem_filter.1 this).1
  · split at h
    · cases h
    · split at h
      · cases h
      · split at h
        · rename_i hv; right; exact hv
        · cases h
  · cases h

theorem optName_bound (env : Env) (spec : ArgSpec) (n : Str) (eq : Bool) (m : Str)
    (h : optName env spec n eq = .ok m) : m ∈ spec.names ∨ spec.varkw = true := by
  unfold optName at h
  split at h
  · cases h
  · split at h
    · cases h
    · cases h
    · cases h
    · rename_i m' hres
      simp only [Except.ok.injEq] at h; subst h
      exact resolveOpt_bound env spec _ _ _ hres

theorem addPos_ok {e : Expr} {r : Except PErr Scanned} {p occ} (h : addPos e r = .ok (p, occ)) :
    ∃ p', r = .ok (p', occ) ∧ p = e :: p' := by
  cases r with
  | error x => cases h
  | ok r =>
    obtain ⟨p', k'⟩ := r
    simp only [addPos, Except.ok.injEq, Prod.mk.injEq] at h
    exact ⟨p', by rw [h.2], h.1.symm⟩

theorem addKw_ok {m : Str} {e : Expr} {r : Except PErr Scanned} {p occ} (h : addKw m e r = .ok (p, occ)) :
    ∃ k', r = .ok (p, k') ∧ occ = (m, e) :: k' := by
  cases r with
  | error x => cases h
  | ok r =>
    obtain ⟨p', k'⟩ := r
    simp only [addKw, Except.ok.injEq, Prod.mk.injEq] at h
    exact ⟨k', by rw [h.1], h.2.symm⟩

theorem scan_keys (env : Env) (spec : ArgSpec) (mode : Mode) :
    ∀ (argv : List Str) (stdin : Str) (pending : Option Str) p occ,
      (∀ nm, pending = some nm → nm ∈ spec.names ∨ spec.varkw = true) →
      scan env spec mode argv stdin pending = .ok (p, occ) →
      ∀ q ∈ occ, q.1 ∈ spec.names ∨ spec.varkw = true := by
  intro argv
  induction argv with
  | nil =>
    intro stdin pending p occ _ h
    cases pending with
    | some nm => simp [scan] at h
    | none => simp [scan] at h; simp [h.2]
  | cons arg rest ih =>
    intro stdin pending p occ hp h
    cases pending with
    | some nm =>
      simp only [scan] at h
      split at h
      · cases h
      · obtain ⟨k', hr, rfl⟩ := addKw_ok h
        intro q hq
        simp at hq
        rcases hq with rfl | hq
        · exact hp nm rfl
        · exact ih stdin none p k' (by simp) hr q hq
    | none =>
      simp only [scan] at h
      split at h
      · cases h
      · cases h
      · obtain ⟨p', hr, _⟩ := addPos_ok h
        exact ih [] none p' occ (by simp) hr
      · simp only [Except.ok.injEq, Prod.mk.injEq] at h
        simp [← h.2]
      · rename_i n eq v _
        split at h
        · cases h
        · rename_i m hm
          have hm' := optName_bound env spec n eq m hm
          split at h
          · exact ih stdin (some m) p occ (by intro nm hnm; cases hnm; exact hm') h
          · obtain ⟨k', hr, rfl⟩ := addKw_ok h
            intro q hq
            simp at hq
            rcases hq with rfl | hq
            · exact hm'
            · exact ih stdin none p k' (by simp) hr q hq
      · obtain ⟨p', hr, _⟩ := addPos_ok h
        exact ih stdin none p' occ (by simp) hr

theorem FromArgv.cons {argv : List Str} {sin sin' s : Str} (a : Str) (h : FromArgv argv sin' s)
    (hs : sin' = sin ∨ sin' = []) : FromArgv (a :: argv) sin s := by
  rcases h with h | ⟨x, hx, pre, h1, h2⟩ | h | h
  · left; simp [h]
  · right; left; exact ⟨x, by simp [hx], pre, h1, h2⟩
  · rcases hs with hs | hs
    · right; right; left; rw [h, hs]
    · right; right; right; rw [h, hs]
  · right; right; right; exact h

/-- an expression built by the option loop: an original string, in the given mode or as a literal -/
def ExprFrom (argv : List Str) (stdin : Str) (mode : Mode) (e : Expr) : Prop :=
  ∃ s m, e = .user s m ∧ FromArgv argv stdin s ∧ (m = mode ∨ m = .string)

theorem ExprFrom.cons {argv : List Str} {sin sin' : Str} {mode : Mode} {e : Expr} (a : Str)
    (h : ExprFrom argv sin' mode e) (hs : sin' = sin ∨ sin' = []) : ExprFrom (a :: argv) sin mode e := by
  obtain ⟨s, m, h1, h2, h3⟩ := h
  exact ⟨s, m, h1, h2.cons a hs, h3⟩

theorem partitionEq_spec : ∀ (b n0 v : Str) (eq : Bool), partitionEq b = (n0, eq, v) →
    '=' ∉ n0 ∧ (eq = true → b = n0 ++ '=' :: v) ∧ (eq = false → b = n0 ∧ v = []) := by
  intro b
  induction b with
  | nil => intro n0 v eq h; simp [partitionEq] at h; obtain ⟨rfl, rfl, rfl⟩ := h; simp
  | cons c cs ih =>
    intro n0 v eq h
    simp only [partitionEq] at h
    split at h
    · rename_i hc
      simp only [Prod.mk.injEq] at h
      obtain ⟨rfl, rfl, rfl⟩ := h
      simp [hc]
    · rename_i hc
      simp only [Prod.mk.injEq] at h
      obtain ⟨rfl, rfl, rfl⟩ := h
      obtain ⟨i1, i2, i3⟩ := ih _ _ _ rfl
      refine ⟨?_, ?_, ?_⟩
      · simp; exact ⟨fun h => hc h.symm, i1⟩
      · intro he; exact congrArg (c :: ·) (i2 he)
      · intro he; exact ⟨congrArg (c :: ·) (i3 he).1, (i3 he).2⟩

theorem partitionEq_append (t v : Str) (h : '=' ∉ t) : partitionEq (t ++ '=' :: v) = (t, true, v) := by
  induction t with
  | nil => simp [partitionEq]
  | cons c cs ih =>
    simp at h
    have hc : c ≠ '=' := fun e => h.1 e.symm
    simp [partitionEq, hc, ih h.2]

theorem partitionEq_noeq (t : Str) (h : '=' ∉ t) : partitionEq t = (t, false, []) := by
  induction t with
  | nil => simp [partitionEq]
  | cons c cs ih =>
    simp at h
    have hc : c ≠ '=' := fun e => h.1 e.symm
    simp [partitionEq, hc, ih h.2]

/-- An option token is `-`/`--`, a name without `=`, and — when `=` is present — the exact value text. -/
theorem classify_opt (arg n v : Str) (eq : Bool) (h : classify arg = .opt n eq v) :
    ∃ d n0, (d = ['-','-'] ∨ d = ['-']) ∧ n = dashToUnderscore n0 ∧ '=' ∉ n0 ∧
      (eq = true → arg = d ++ n0 ++ '=' :: v) ∧ (eq = false → arg = d ++ n0 ∧ v = []) := by
  unfold classify at h
  split at h
  · cases h
  split at h
  · cases h
  split at h
  · rename_i hd
    split at h
    · cases h
    split at h
    · cases h
    split at h
    rename_i n0 e v' hp
    simp only [Tok.opt.injEq] at h
    obtain ⟨rfl, rfl, rfl⟩ := h
    obtain ⟨i1, i2, i3⟩ := partitionEq_spec _ _ _ _ hp
    by_cases hdd : (['-','-'] : Str).isPrefixOf arg = true
    · simp only [hdd, if_true] at i2 i3
      have harg : arg = ['-','-'] ++ arg.drop 2 := by
        have := List.prefix_iff_eq_append.1 (List.isPrefixOf_iff_prefix.1 hdd)
        simpa using this.symm
      refine ⟨['-','-'], n0, Or.inl rfl, rfl, i1, ?_, ?_⟩
      · intro he; rw [List.append_assoc, ← i2 he]; exact harg
      · intro he; rw [← (i3 he).1]; exact ⟨harg, (i3 he).2⟩
    · simp only [hdd] at i2 i3
      have harg : arg = ['-'] ++ arg.drop 1 := by
        have := List.prefix_iff_eq_append.1 (List.isPrefixOf_iff_prefix.1 hd)
        simpa using this.symm
      refine ⟨['-'], n0, Or.inr rfl, rfl, i1, ?_, ?_⟩
      · intro he; rw [List.append_assoc, ← i2 he]; exact harg
      · intro he; rw [← (i3 he).1]; exact ⟨harg, (i3 he).2⟩
  · cases h

theorem scan_exprs (env : Env) (spec : ArgSpec) (mode : Mode) :
    ∀ (argv : List Str) (stdin : Str) (pending : Option Str) p occ,
      scan env spec mode argv stdin pending = .ok (p, occ) →
      (∀ e ∈ p, ExprFrom argv stdin mode e) ∧ (∀ q ∈ occ, ExprFrom argv stdin mode q.2) := by
  intro argv
  induction argv with
  | nil =>
    intro stdin pending p occ h
    cases pending with
    | some nm => simp [scan] at h
    | none => simp [scan] at h; simp [h.1, h.2]
  | cons arg rest ih =>
    intro stdin pending p occ h
    have self_pos : ∀ m, (m = mode ∨ m = Mode.string) → ExprFrom (arg :: rest) stdin mode (.user arg m) :=
      fun m hm => ⟨arg, m, rfl, Or.inl (by simp), hm⟩
    cases pending with
    | some nm =>
      simp only [scan] at h
      split at h
      · cases h
      · obtain ⟨k', hr, rfl⟩ := addKw_ok h
        obtain ⟨i1, i2⟩ := ih stdin none p k' hr
        refine ⟨fun e he => (i1 e he).cons arg (Or.inl rfl), ?_⟩
        intro q hq
        simp at hq
        rcases hq with rfl | hq
        · exact self_pos mode (Or.inl rfl)
        · exact (i2 q hq).cons arg (Or.inl rfl)
    | none =>
      simp only [scan] at h
      split at h
      · cases h
      · cases h
      · obtain ⟨p', hr, rfl⟩ := addPos_ok h
        obtain ⟨i1, i2⟩ := ih [] none p' occ hr
        refine ⟨?_, fun q hq => (i2 q hq).cons arg (Or.inr rfl)⟩
        intro e he
        simp at he
        rcases he with rfl | he
        · exact ⟨stdin, .string, rfl, Or.inr (Or.inr (Or.inl rfl)), Or.inr rfl⟩
        · exact (i1 e he).cons arg (Or.inr rfl)
      · simp only [Except.ok.injEq, Prod.mk.injEq] at h
        obtain ⟨rfl, rfl⟩ := h
        refine ⟨?_, by simp⟩
        intro e he
        simp at he
        obtain ⟨x, hx, rfl⟩ := he
        exact ⟨x, .string, rfl, Or.inl (by simp [hx]), Or.inr rfl⟩
      · rename_i n eq v hcl
        split at h
        · cases h
        · rename_i m hm
          split at h
          · obtain ⟨i1, i2⟩ := ih stdin (some m) p occ h
            exact ⟨fun e he => (i1 e he).cons arg (Or.inl rfl), fun q hq => (i2 q hq).cons arg (Or.inl rfl)⟩
          · rename_i hv
            obtain ⟨k', hr, rfl⟩ := addKw_ok h
            obtain ⟨i1, i2⟩ := ih stdin none p k' hr
            refine ⟨fun e he => (i1 e he).cons arg (Or.inl rfl), ?_⟩
            intro q hq
            simp at hq
            rcases hq with rfl | hq
            · obtain ⟨d, n0, hd, _, hn0, he1, he2⟩ := classify_opt arg n v eq hcl
              cases eq with
              | false =>
                have hv0 := (he2 rfl).2
                subst hv0
                exact absurd (by simp [takesNext]) hv
              | true =>
                refine ⟨v, mode, rfl, Or.inr (Or.inl ⟨arg, by simp, d ++ n0, he1 rfl, ?_⟩), Or.inl rfl⟩
                rcases hd with rfl | rfl <;> simpa using hn0
            · exact (i2 q hq).cons arg (Or.inl rfl)
      · obtain ⟨p', hr, rfl⟩ := addPos_ok h
        obtain ⟨i1, i2⟩ := ih stdin none p' occ hr
        refine ⟨?_, fun q hq => (i2 q hq).cons arg (Or.inl rfl)⟩
        intro e he
        simp at he
        rcases he with rfl | he
        · exact self_pos mode (Or.inl rfl)
        · exact (i1 e he).cons arg (Or.inl rfl)

theorem pyBind_ok_fields {α : Type} (spec : ArgSpec) (dflt : Str → α) (pos : List α) (kw : List (Str × α))
    (b : Binding α) (h : pyBind spec dflt pos kw = .ok b) :
    b.args = pos.take spec.args.length ++ (spec.args.drop pos.length).map (fun a => (dget kw a).getD (dflt a)) ∧
    b.star = pos.drop spec.args.length ∧
    b.kwonly = spec.kwonly.map (fun a => (dget kw a).getD (dflt a)) ∧
    b.starstar = kw.filter (fun p => !spec.names.contains p.1) := by
  unfold pyBind at h
  simp only [] at h
  split at h
  · cases h
  split at h
  · cases h
  split at h
  · cases h
  split at h
  · cases h
  split at h
  · cases h
  simp only [Except.ok.injEq] at h
  subst h
  exact ⟨rfl, rfl, rfl, rfl⟩

theorem evalAll_lits (env : Env) (l : List Str) :
    evalAll env (l.map (fun x => Expr.user x .string)) = .ok (l.map Val.raw) := by
  induction l with
  | nil => simp [evalAll]
  | cons x xs ih => simp [evalAll, evalExpr, ih]

theorem evalAll_append_ok {env : Env} {l1 l2 : List Expr} {vs : List Val} (h : evalAll env (l1 ++ l2) = .ok vs) :
    ∃ v1 v2, evalAll env l1 = .ok v1 ∧ evalAll env l2 = .ok v2 ∧ vs = v1 ++ v2 := by
  rw [evalAll_append] at h
  cases h1 : evalAll env l1 with
  | error e => rw [h1] at h; cases h
  | ok v1 =>
    rw [h1] at h
    cases h2 : evalAll env l2 with
    | error e => rw [h2] at h; cases h
    | ok v2 =>
      rw [h2] at h
      simp only [Except.ok.injEq] at h
      exact ⟨v1, v2, rfl, rfl, h.symm⟩

/-- the pieces of a successful delivery -/
theorem evalBinding_ok {env : Env} {spec : ArgSpec} {b : Binding Expr} {a : List Val} {k : List (Str × Val)}
    (h : evalBinding env spec b = .ok (a, k)) :
    ∃ va vk vs ss, evalAll env b.args = .ok va ∧ evalAll env b.kwonly = .ok vk ∧ evalAll env b.star = .ok vs ∧
      evalKw env b.starstar = .ok ss ∧ a = va ++ vs ∧ k = spec.kwonly.zip vk ++ ss := by
  unfold evalBinding at h
  cases h1 : evalAll env b.args with
  | error e => rw [h1] at h; cases h
  | ok va =>
    rw [h1] at h
    cases h2 : evalAll env b.kwonly with
    | error e => rw [h2] at h; cases h
    | ok vk =>
      rw [h2] at h
      cases h3 : evalAll env b.star with
      | error e => rw [h3] at h; cases h
      | ok vs =>
        rw [h3] at h
        cases h4 : evalKw env b.starstar with
        | error e => rw [h4] at h; cases h
        | ok ss =>
          rw [h4] at h
          simp only [Except.ok.injEq, Prod.mk.injEq] at h
          exact ⟨va, vk, vs, ss, rfl, rfl, rfl, rfl, h.1.symm, h.2.symm⟩

/-- a successful binding phase went through Python's binding -/
theorem bindPhase_ok_binding (env : Env) (spec : ArgSpec) (hwf : WF spec) (pos : List Expr) (kw : Dict)
    (hk : KeysOk spec kw) (r : Delivered) (h : bindPhase env spec pos kw = .ok r) :
    ∃ b, pyBind spec Expr.dflt pos kw = .ok b ∧ evalBinding env spec b = .ok r := by
  obtain ⟨b, hb⟩ := (bindPhase_sound env spec hwf pos kw hk).1 r h
  exact ⟨b, hb, by rw [← bindPhase_of_pyBind_ok env spec hwf pos kw b hb, h]⟩

/-- The positional command-line arguments arrive first, in order, each evaluated on its own. -/
theorem delivered_positional (env : Env) (spec : ArgSpec) (hwf : WF spec) (pos : List Expr) (kw : Dict)
    (hk : KeysOk spec kw) (a : List Val) (k : List (Str × Val)) (h : bindPhase env spec pos kw = .ok (a, k)) :
    ∃ vs tail, evalAll env pos = .ok vs ∧ a = vs ++ tail := by
  obtain ⟨b, hb, he⟩ := bindPhase_ok_binding env spec hwf pos kw hk _ h
  obtain ⟨f1, f2, _, _⟩ := pyBind_ok_fields spec Expr.dflt pos kw b hb
  obtain ⟨va, vk, vs, ss, h1, _, h3, _, rfl, _⟩ := evalBinding_ok he
  rw [f1] at h1
  rw [f2] at h3
  obtain ⟨v1, v2, e1, e2, rfl⟩ := evalAll_append_ok h1
  by_cases hl : pos.length ≤ spec.args.length
  · rw [List.take_of_length_le hl] at e1
    rw [List.drop_of_length_le hl] at h3
    simp [evalAll] at h3
    subst h3
    exact ⟨v1, v2, e1, by simp⟩
  · have hl' : spec.args.length ≤ pos.length := by omega
    rw [List.drop_of_length_le hl'] at e2
    simp [evalAll] at e2
    subst e2
    refine ⟨v1 ++ vs, [], ?_, by simp⟩
    have : pos = pos.take spec.args.length ++ pos.drop spec.args.length := (List.take_append_drop _ _).symm
    rw [this, evalAll_append, e1, h3]

theorem dset_mem {α : Type} (d : List (Str × α)) (k : Str) (v : α) :
    ∀ p ∈ dset d k v, p = (k, v) ∨ p ∈ d := by
  induction d with
  | nil => intro p hp; simp [dset] at hp; left; exact hp
  | cons q r ih =>
    obtain ⟨k', v'⟩ := q
    intro p hp
    by_cases h : k' = k
    · simp [dset, h] at hp
      rcases hp with rfl | hp
      · left; rfl
      · right; simp [hp]
    · simp [dset, h] at hp
      rcases hp with rfl | hp
      · right; simp
      · rcases ih p hp with h1 | h1
        · left; exact h1
        · right; simp [h1]

theorem foldl_dset_mem {α : Type} (occ : List (Str × α)) (d : List (Str × α)) :
    ∀ p ∈ occ.foldl (fun d p => dset d p.1 p.2) d, p ∈ occ ∨ p ∈ d := by
  induction occ generalizing d with
  | nil => intro p hp; right; exact hp
  | cons q r ih =>
    intro p hp
    simp only [List.foldl_cons] at hp
    rcases ih _ p hp with h | h
    · left; simp [h]
    · rcases dset_mem d q.1 q.2 p h with h1 | h1
      · left; simp [h1]
      · right; exact h1

/-- every entry of the keyword dictionary is one of the assignments -/
theorem dictOf_mem {α : Type} (occ : List (Str × α)) : ∀ p ∈ dictOf occ, p ∈ occ := by
  intro p hp
  rcases foldl_dset_mem occ [] p hp with h | h
  · exact h
  · simp at h

/-- Every delivered value is the evaluation of one command-line expression, or a parameter's default. -/
theorem delivered_sources (env : Env) (spec : ArgSpec) (hwf : WF spec) (pos : List Expr) (kw : Dict)
    (hk : KeysOk spec kw) (a : List Val) (k : List (Str × Val)) (h : bindPhase env spec pos kw = .ok (a, k)) :
    ∀ v ∈ a ++ k.map (·.2),
      (∃ e, (e ∈ pos ∨ ∃ key, (key, e) ∈ kw) ∧ evalExpr env e = .ok v) ∨ (∃ n ∈ spec.names, v = .dflt n) := by
  obtain ⟨b, hb, he⟩ := bindPhase_ok_binding env spec hwf pos kw hk _ h
  obtain ⟨f1, f2, f3, f4⟩ := pyBind_ok_fields spec Expr.dflt pos kw b hb
  obtain ⟨va, vk, vs, ss, h1, h2, h3, h4, rfl, rfl⟩ := evalBinding_ok he
  -- an expression chosen for a parameter
  have chosen : ∀ (names : List Str), (∀ n ∈ names, n ∈ spec.names) →
      ∀ e ∈ names.map (fun a => (dget kw a).getD (Expr.dflt a)), ∀ v, evalExpr env e = .ok v →
      (∃ e, (e ∈ pos ∨ ∃ key, (key, e) ∈ kw) ∧ evalExpr env e = .ok v) ∨ (∃ n ∈ spec.names, v = .dflt n) := by
    intro names hn e he v hv
    obtain ⟨n, hn', rfl⟩ := List.mem_map.1 he
    cases hg : dget kw n with
    | some e' =>
      rw [hg] at hv
      left; exact ⟨e', Or.inr ⟨n, dget_mem hg⟩, hv⟩
    | none =>
      rw [hg] at hv
      simp [evalExpr] at hv
      right; exact ⟨n, hn n hn', hv.symm⟩
  intro v hv
  simp only [List.mem_append, List.mem_map] at hv
  rcases hv with (hv | hv) | ⟨q, hq, rfl⟩
  · obtain ⟨e, he, hev⟩ := evalAll_mem env _ _ h1 v hv
    rw [f1] at he
    rcases List.mem_append.1 he with he | he
    · left; exact ⟨e, Or.inl (List.mem_of_mem_take he), hev⟩
    · exact chosen _ (fun n hn => by
        unfold ArgSpec.names; exact List.mem_append_left _ (List.mem_of_mem_drop hn)) e he v hev
  · obtain ⟨e, he, hev⟩ := evalAll_mem env _ _ h3 v hv
    rw [f2] at he
    left; exact ⟨e, Or.inl (List.mem_of_mem_drop he), hev⟩
  · rcases hq with hq | hq
    · have hq2 : q.2 ∈ vk := (List.of_mem_zip hq).2
      obtain ⟨e, he, hev⟩ := evalAll_mem env _ _ h2 q.2 hq2
      rw [f3] at he
      exact chosen _ (fun n hn => by unfold ArgSpec.names; exact List.mem_append_right _ hn) e he _ hev
    · obtain ⟨p, hp, _, hev⟩ := evalKw_mem env _ _ h4 q hq
      rw [f4] at hp
      left; exact ⟨p.2, Or.inr ⟨p.1, (List.mem_filter.1 hp).1⟩, hev⟩

theorem scan_keysOk (env : Env) (spec : ArgSpec) (mode : Mode) (argv : List Str) (stdin : Str) p occ
    (h : scan env spec mode argv stdin none = .ok (p, occ)) : KeysOk spec (dictOf occ) := by
  have hk := scan_keys env spec mode argv stdin none p occ (by simp) h
  cases hv : spec.varkw with
  | true => left; exact hv
  | false =>
    right
    intro q hq
    rcases hk q (dictOf_mem occ q hq) with h1 | h1
    · exact h1
    · rw [hv] at h1; cases h1

theorem parse_ok {env : Env} {spec : ArgSpec} {argv : List Str} {stdin : Str} {mode : Mode} {r : Delivered}
    (h : parseAutoApply env spec argv stdin mode = .ok r) :
    ∃ p occ, scan env spec mode argv stdin none = .ok (p, occ) ∧ bindPhase env spec p (dictOf occ) = .ok r := by
  unfold parseAutoApply at h
  cases hs : scan env spec mode argv stdin none with
  | error e => rw [hs] at h; cases h
  | ok s =>
    obtain ⟨p, occ⟩ := s
    rw [hs] at h
    exact ⟨p, occ, rfl, h⟩

theorem scan_env_indep (e1 e2 : Env) (hs : SameSyntax e1 e2) (spec : ArgSpec) (mode : Mode) :
    ∀ (argv : List Str) (stdin : Str) (pending : Option Str),
      scan e1 spec mode argv stdin pending = scan e2 spec mode argv stdin pending := by
  have hopt : ∀ n eq, optName e1 spec n eq = optName e2 spec n eq := by
    intro n eq; simp only [optName, resolveOpt, hs.1, hs.2.1]
  intro argv
  induction argv with
  | nil => intro stdin pending; cases pending <;> simp [scan]
  | cons arg rest ih =>
    intro stdin pending
    cases pending with
    | some nm => simp only [scan, ih]
    | none =>
      simp only [scan]
      cases classify arg with
      | help => rfl
      | source => rfl
      | stdin => simp only [ih]
      | dashdash => rfl
      | opt n eq v => simp only [hopt, ih, takesNext, hs.2.2]; rfl
      | pos => simp only [ih]

section congr
variable (e1 e2 : Env) (spec : ArgSpec)

theorem evalAll_congr (l : List Expr) (h : ∀ e ∈ l, evalExpr e1 e = evalExpr e2 e) : evalAll e1 l = evalAll e2 l := by
  induction l with
  | nil => rfl
  | cons x xs ih =>
    simp only [evalAll, h x (by simp), ih (fun e he => h e (by simp [he]))]

theorem evalKw_congr (l : Dict) (h : ∀ p ∈ l, evalExpr e1 p.2 = evalExpr e2 p.2) : evalKw e1 l = evalKw e2 l := by
  induction l with
  | nil => rfl
  | cons x xs ih =>
    obtain ⟨k, e⟩ := x
    simp only [evalKw, h (k, e) (by simp), ih (fun p hp => h p (by simp [hp]))]

theorem bindArgs_congr : ∀ (as : List Str) (pos : List Expr) (kw : Dict),
    (∀ e ∈ pos, evalExpr e1 e = evalExpr e2 e) → (∀ p ∈ kw, evalExpr e1 p.2 = evalExpr e2 p.2) →
    bindArgs e1 spec as pos kw = bindArgs e2 spec as pos kw := by
  intro as
  induction as with
  | nil => intro pos kw _ _; simp [bindArgs]
  | cons a as ih =>
    intro pos kw hp hk
    cases pos with
    | cons p ps =>
      simp only [bindArgs, hp p (by simp), ih ps kw (fun e he => hp e (by simp [he])) hk]
    | nil =>
      simp only [bindArgs]
      cases hg : dget kw a with
      | some e =>
        simp only [hk (a, e) (dget_mem hg),
          ih [] (derase kw a) (by simp) (fun p hp' => hk p (derase_subset kw a p hp'))]
      | none => simp only [ih [] kw (by simp) hk]

theorem bindKwonly_congr : ∀ (as : List Str) (kw : Dict),
    (∀ p ∈ kw, evalExpr e1 p.2 = evalExpr e2 p.2) →
    bindKwonly e1 spec as kw = bindKwonly e2 spec as kw := by
  intro as
  induction as with
  | nil => intro kw _; simp [bindKwonly]
  | cons a as ih =>
    intro kw hk
    simp only [bindKwonly]
    cases hg : dget kw a with
    | some e =>
      simp only [hk (a, e) (dget_mem hg), ih (derase kw a) (fun p hp' => hk p (derase_subset kw a p hp'))]
    | none => simp only [ih kw hk]

theorem bindPhase_congr (pos : List Expr) (kw : Dict)
    (hp : ∀ e ∈ pos, evalExpr e1 e = evalExpr e2 e) (hk : ∀ p ∈ kw, evalExpr e1 p.2 = evalExpr e2 p.2) :
    bindPhase e1 spec pos kw = bindPhase e2 spec pos kw := by
  unfold bindPhase
  rw [← bindArgs_congr e1 e2 spec spec.args pos kw hp hk]
  cases h1 : bindArgs e1 spec spec.args pos kw with
  | error x => rfl
  | ok r1 =>
    obtain ⟨vs, left, kw1⟩ := r1
    obtain ⟨s1, s2⟩ := bindArgs_left_subset spec e1 spec.args pos kw vs left kw1 h1
    simp only []
    rw [← bindKwonly_congr e1 e2 spec spec.kwonly kw1 (fun p hp' => hk p (s2 p hp'))]
    cases h2 : bindKwonly e1 spec spec.kwonly kw1 with
    | error x => rfl
    | ok r2 =>
      obtain ⟨kvs, kw2⟩ := r2
      have s3 := bindKwonly_left_subset spec e1 spec.kwonly kw1 kvs kw2 h2
      simp only []
      rw [← evalAll_congr e1 e2 left (fun e he => hp e (s1 e he)),
          ← evalKw_congr e1 e2 kw2 (fun p hp' => hk p (s2 p (s3 p hp')))]

end congr

theorem classify_dd : classify dd = .dashdash := by decide

theorem classify_eq_dashdash (a : Str) (h : classify a = .dashdash) : a = dd := by
  unfold classify at h
  split at h
  · cases h
  split at h
  · cases h
  split at h
  · split at h
    · cases h
    split at h
    · rename_i h2; exact h2
    · split at h; cases h
  · cases h

/-- the option loop hands everything after the first `--` over as literal strings, in order -/
theorem scan_dashdash (env : Env) (spec : ArgSpec) (mode : Mode) (rest : List Str) :
    ∀ (pre : List Str) (stdin : Str) (pending : Option Str) p occ, dd ∉ pre →
      scan env spec mode (pre ++ dd :: rest) stdin pending = .ok (p, occ) →
      ∃ p0, p = p0 ++ rest.map (fun x => Expr.user x .string) := by
  intro pre
  induction pre with
  | nil =>
    intro stdin pending p occ _ h
    cases pending with
    | some nm => simp [scan, dd] at h
    | none =>
      simp only [List.nil_append, scan, classify_dd, Except.ok.injEq, Prod.mk.injEq] at h
      exact ⟨[], by simp [← h.1]⟩
  | cons a pre ih =>
    intro stdin pending p occ hnot h
    have ha : a ≠ dd := fun e => hnot (by simp [e])
    have hnot' : dd ∉ pre := fun e => hnot (by simp [e])
    cases pending with
    | some nm =>
      simp only [List.cons_append, scan] at h
      split at h
      · cases h
      · obtain ⟨k', hr, _⟩ := addKw_ok h
        exact ih stdin none p k' hnot' hr
    | none =>
      simp only [List.cons_append, scan] at h
      split at h
      · cases h
      · cases h
      · obtain ⟨p', hr, rfl⟩ := addPos_ok h
        obtain ⟨p0, rfl⟩ := ih [] none p' occ hnot' hr
        exact ⟨Expr.user stdin .string :: p0, by simp⟩
      · rename_i hc; exact absurd (classify_eq_dashdash a hc) ha
      · split at h
        · cases h
        · rename_i m _
          split at h
          · exact ih stdin (some m) p occ hnot' h
          · obtain ⟨k', hr, _⟩ := addKw_ok h
            exact ih stdin none p k' hnot' hr
      · obtain ⟨p', hr, rfl⟩ := addPos_ok h
        obtain ⟨p0, rfl⟩ := ih stdin none p' occ hnot' hr
        exact ⟨Expr.user a mode :: p0, by simp⟩

theorem filter_eq_singleton {α : Type} (p : α → Bool) (n : α) :
    ∀ (l : List α), l.Nodup → n ∈ l → p n = true → (∀ m ∈ l, p m = true → m = n) → l.filter p = [n] := by
  intro l
  induction l with
  | nil => intro _ h; simp at h
  | cons x xs ih =>
    intro hnd hin hp hall
    have hx : x ∉ xs := (List.nodup_cons.1 hnd).1
    have hnd' := (List.nodup_cons.1 hnd).2
    by_cases hxn : x = n
    · subst hxn
      have : xs.filter p = [] := by
        apply List.filter_eq_nil_iff.2
        intro m hm hpm
        have := hall m (by simp [hm]) hpm
        subst this; exact hx hm
      simp [List.filter_cons, hp, this]
    · have hin' : n ∈ xs := by
        rcases List.mem_cons.1 hin with h | h
        · exact absurd h.symm hxn
        · exact h
      have hpx : p x = false := by
        cases hh : p x with
        | false => rfl
        | true => exact absurd (hall x (by simp) hh) hxn
      simp [List.filter_cons, hpx, ih hnd' hin' hp (fun m hm => hall m (by simp [hm]))]

theorem matched_eq (spec : ArgSpec) (n : Str) (hn : n ≠ []) :
    matched spec n = spec.names.filter (fun a => n.isPrefixOf a) := by
  unfold matched
  apply List.filter_congr
  intro a _
  cases n with
  | nil => exact absurd rfl hn
  | cons c cs => simp

theorem isPrefixOf_self (n : Str) : n.isPrefixOf n = true := by
  induction n with
  | nil => rfl
  | cons c cs ih => simp [List.isPrefixOf, ih]

/-- Where the code's prefix table and the property's reading of an option name coincide. -/
theorem resolve_agree (env : Env) (spec : ArgSpec) (hwf : WF spec) (n m : Str) (eq : Bool) (hn : n ≠ [])
    (hag : Agrees env spec n) (hres : resolveSpec spec n = some m)
    (hnh : ¬ (eq = false ∧ (n = sHelp ∨ n = sH ∨ n = sSource) ∧ matched spec n = [])) :
    resolveOpt env spec n eq = .bound m := by
  unfold resolveSpec at hres
  rw [← matched_eq spec n hn] at hres
  unfold resolveOpt
  simp only []
  by_cases hin : n ∈ spec.names
  · have hc : spec.names.contains n = true := by simpa using hin
    rw [hc] at hres
    simp only [if_true, Option.some.injEq] at hres
    subst hres
    have hmem : n ∈ matched spec n := by
      rw [matched_eq spec n hn]
      exact List.mem_filter.2 ⟨hin, isPrefixOf_self n⟩
    cases hx : env.exactFirst with
    | true =>
      have : (matched spec n).contains n = true := by simpa using hmem
      simp only [this, Bool.and_self, if_true]
    | false =>
      rcases hag with h | h
      · rw [hx] at h; cases h
      · have : matched spec n = [n] := by
          rw [matched_eq spec n hn]
          exact filter_eq_singleton _ n _ hwf.1 hin (isPrefixOf_self n) (h hin)
        simp [this]
  · have hc : spec.names.contains n = false := by simpa using hin
    rw [hc] at hres
    simp only [Bool.false_eq_true, if_false] at hres
    have hnm : (matched spec n).contains n = false := by
      cases hh : (matched spec n).contains n with
      | false => rfl
      | true =>
        have : n ∈ matched spec n := by simpa using hh
        exact absurd (List.mem_filter.1 this).1 hin
    simp only [hnm, Bool.and_false, Bool.false_eq_true, if_false]
    split at hres
    · rename_i m' hm'
      simp only [Option.some.injEq] at hres
      subst hres
      simp [hm']
    · rename_i hm'
      split at hres
      · rename_i hv
        simp only [Option.some.injEq] at hres
        subst hres
        rw [hm']
        have h1 : (!eq && (decide (n = sHelp) || decide (n = sH))) = false := by
          cases eq with
          | true => simp
          | false =>
            cases hh : (decide (n = sHelp) || decide (n = sH)) with
            | false => simp
            | true =>
              simp at hh
              exact absurd ⟨rfl, by rcases hh with h | h <;> simp [h], hm'⟩ hnh
        have h2 : (!eq && decide (n = sSource)) = false := by
          cases eq with
          | true => simp
          | false =>
            cases hh : decide (n = sSource) with
            | false => simp
            | true =>
              simp at hh
              exact absurd ⟨rfl, Or.inr (Or.inr hh), hm'⟩ hnh
        simp only [h1, h2, Bool.false_eq_true, if_false, hv, if_true]
      · cases hres
    · cases hres

theorem classify_pos (s : Str) (h : PlainPos s) : classify s = .pos := by
  obtain ⟨h1, h2, h3⟩ := h
  have h2' : s ∉ helpTokens := by simpa using h2
  have h3' : s ∉ sourceTokens := by simpa using h3
  simp [classify, h1, h2', h3']

theorem classify_stdin : classify ['-'] = .stdin := by decide

theorem classify_opt_eq (f : Form) (c : Char) (t' v : Str) (hc : c ≠ '?') (hd : f.dashes = ['-'] → c ≠ '-')
    (hne : '=' ∉ c :: t') :
    classify (f.dashes ++ (c :: t') ++ '=' :: v) = .opt (dashToUnderscore (c :: t')) true v := by
  have hp := partitionEq_append (c :: t') v hne
  cases f with
  | ddEq | ddSp =>
    simp only [Form.dashes, List.cons_append, List.nil_append] at hp ⊢
    simp [classify, helpTokens, sourceTokens, hc, hp]
  | dEq | dSp =>
    have hc2 : c ≠ '-' := hd rfl
    simp only [Form.dashes, List.cons_append, List.nil_append] at hp ⊢
    simp [classify, helpTokens, sourceTokens, hc, hc2, Ne.symm hc2, hp]

theorem classify_opt_sp (f : Form) (c : Char) (t' : Str) (hc : c ≠ '?') (hd : f.dashes = ['-'] → c ≠ '-')
    (hne : '=' ∉ c :: t') :
    classify (f.dashes ++ (c :: t')) = .opt (dashToUnderscore (c :: t')) false [] := by
  have hp := partitionEq_noeq (c :: t') hne
  cases f with
  | ddEq | ddSp =>
    simp only [Form.dashes, List.cons_append, List.nil_append] at hp ⊢
    simp [classify, helpTokens, sourceTokens, hc, hp]
  | dEq | dSp =>
    have hc2 : c ≠ '-' := hd rfl
    simp only [Form.dashes, List.cons_append, List.nil_append] at hp ⊢
    simp [classify, helpTokens, sourceTokens, hc, hc2, Ne.symm hc2, hp]

theorem optName_ok (env : Env) (spec : ArgSpec) (hwf : WF spec) (f : Form) (t v m : Str)
    (h : OptOk env spec f t v m) (hag : Agrees env spec (dashToUnderscore t)) :
    optName env spec (dashToUnderscore t) f.hasEq = .ok m := by
  obtain ⟨c, t', rfl, _, _⟩ := h.first
  have hn : dashToUnderscore (c :: t') ≠ [] := by simp [dashToUnderscore]
  have := resolve_agree env spec hwf _ m f.hasEq hn hag h.resolves h.notHelp
  simp [optName, h.ident, this]

def renderItems : List Item → List Str
  | [] => []
  | it :: its => renderItem it ++ renderItems its

def tailArgs : Option (List Str) → List Str
  | none => []
  | some r => dd :: r

theorem render_eq (items : List Item) (tail : Option (List Str)) :
    render items tail = renderItems items ++ tailArgs tail := by
  induction items with
  | nil => cases tail <;> simp [render, renderItems, tailArgs]
  | cons it its ih => simp [render, renderItems, ih]

/-- what is left of stdin after the `-` items -/
def stdinAfter : List Item → Str → Str
  | [], sin => sin
  | .stdin :: r, _ => stdinAfter r []
  | _ :: r, sin => stdinAfter r sin

def prepend (q : Scanned) : Except PErr Scanned → Except PErr Scanned
  | .error e => .error e
  | .ok (p, k) => .ok (q.1 ++ p, q.2 ++ k)

/-- **Printing then parsing is the identity**: a command line typed in the
    documented forms is read by the option loop as exactly the positional
    strings and keyword assignments it means — each option bound to the
    parameter the property's own reading (`resolveSpec`) gives — and the loop
    then continues with whatever follows. -/
theorem scan_items (env : Env) (spec : ArgSpec) (hwf : WF spec) (mode : Mode) (rest : List Str) :
    ∀ (items : List Item) (stdin : Str),
      (∀ it ∈ items, ItemOk env spec it) →
      (∀ f t v, Item.opt f t v ∈ items → Agrees env spec (dashToUnderscore t)) →
      scan env spec mode (renderItems items ++ rest) stdin none =
        prepend (expectScan spec mode items stdin) (scan env spec mode rest (stdinAfter items stdin) none) := by
  intro items
  induction items with
  | nil =>
    intro stdin _ _
    simp only [renderItems, List.nil_append, expectScan, stdinAfter]
    cases scan env spec mode rest stdin none with
    | error e => rfl
    | ok r => rfl
  | cons it its ih =>
    intro stdin hok hag
    have hok' : ∀ it ∈ its, ItemOk env spec it := fun x hx => hok x (by simp [hx])
    have hag' : ∀ f t v, Item.opt f t v ∈ its → Agrees env spec (dashToUnderscore t) :=
      fun f t v hx => hag f t v (by simp [hx])
    cases it with
    | pos s =>
      have hp : PlainPos s := hok (.pos s) (by simp)
      simp only [renderItems, renderItem, List.cons_append, List.nil_append, scan, classify_pos s hp,
        ih stdin hok' hag', expectScan, stdinAfter]
      cases scan env spec mode rest (stdinAfter its stdin) none with
      | error e => rfl
      | ok r => rfl
    | stdin =>
      simp only [renderItems, renderItem, List.cons_append, List.nil_append, scan, classify_stdin,
        ih [] hok' hag', expectScan, stdinAfter]
      cases scan env spec mode rest (stdinAfter its []) none with
      | error e => rfl
      | ok r => rfl
    | opt f t v =>
      obtain ⟨m, hm⟩ : ItemOk env spec (.opt f t v) := hok _ (by simp)
      have hagt := hag f t v (by simp)
      have hopt := optName_ok env spec hwf f t v m hm hagt
      obtain ⟨c, t', rfl, hc, hd⟩ := hm.first
      have hval := hm.value
      cases hf : f.hasEq with
      | true =>
        rw [hf] at hopt
        simp only [hf, if_true] at hval
        have hve0 : v.isEmpty = false := by cases v <;> simp at hval ⊢
        have hve : takesNext env true v = false := by simp [takesNext, hve0]
        simp only [renderItems, renderItem, hf, if_true, List.cons_append, List.nil_append, scan,
          classify_opt_eq f c t' v hc hd hm.noEq, hopt, hve, Bool.false_eq_true, if_false,
          ih stdin hok' hag', expectScan, hm.resolves, Option.getD_some, stdinAfter]
        cases scan env spec mode rest (stdinAfter its stdin) none with
        | error e => rfl
        | ok r => rfl
      | false =>
        rw [hf] at hopt
        simp only [hf, Bool.false_eq_true, if_false] at hval
        have hval' : (['-','-'] : Str).isPrefixOf v = false := hval
        have htn : takesNext env false [] = true := by simp [takesNext]
        simp only [renderItems, renderItem, hf, Bool.false_eq_true, if_false, List.cons_append, List.nil_append,
          scan, classify_opt_sp f c t' hc hd hm.noEq, hopt, htn, if_true, hval',
          ih stdin hok' hag', expectScan, hm.resolves, Option.getD_some, stdinAfter]
        cases scan env spec mode rest (stdinAfter its stdin) none with
        | error e => rfl
        | ok r => rfl

theorem scan_tailArgs (env : Env) (spec : ArgSpec) (mode : Mode) (tail : Option (List Str)) (stdin : Str) :
    scan env spec mode (tailArgs tail) stdin none = .ok (tailLits tail, []) := by
  cases tail with
  | none => simp [tailArgs, scan, tailLits]
  | some r => simp [tailArgs, scan, classify_dd, tailLits]

theorem scan_render (env : Env) (spec : ArgSpec) (hwf : WF spec) (mode : Mode) (tail : Option (List Str))
    (items : List Item) (stdin : Str) (hok : ∀ it ∈ items, ItemOk env spec it)
    (hag : ∀ f t v, Item.opt f t v ∈ items → Agrees env spec (dashToUnderscore t)) :
    scan env spec mode (render items tail) stdin none =
      .ok ((expectScan spec mode items stdin).1 ++ tailLits tail, (expectScan spec mode items stdin).2) := by
  rw [render_eq, scan_items env spec hwf mode _ items stdin hok hag, scan_tailArgs]
  simp [prepend]

theorem resolveOpt_ambiguous (env : Env) (spec : ArgSpec) (n : Str) (eq : Bool) (hn : n ≠ [])
    (hnot : n ∉ spec.names) (m1 m2 : Str) (r : List Str)
    (hf : spec.names.filter (fun a => n.isPrefixOf a) = m1 :: m2 :: r) :
    resolveOpt env spec n eq = .err .ambiguous := by
  unfold resolveOpt
  rw [← matched_eq spec n hn] at hf
  have hnm : (matched spec n).contains n = false := by
    cases hh : (matched spec n).contains n with
    | false => rfl
    | true =>
      have : n ∈ matched spec n := by simpa using hh
      exact absurd (List.mem_filter.1 this).1 hnot
  rw [hf] at hnm
  simp only [hf, hnm, Bool.and_false, Bool.false_eq_true, if_false]

theorem resolveOpt_unknown (env : Env) (spec : ArgSpec) (n : Str) (eq : Bool) (hn : n ≠ [])
    (hf : spec.names.filter (fun a => n.isPrefixOf a) = []) (hv : spec.varkw = false)
    (hnh : ¬ (eq = false ∧ (n = sHelp ∨ n = sH ∨ n = sSource))) :
    resolveOpt env spec n eq = .err .unknownOption := by
  unfold resolveOpt
  rw [← matched_eq spec n hn] at hf
  have h1 : (!eq && (decide (n = sHelp) || decide (n = sH))) = false := by
    cases eq with
    | true => simp
    | false =>
      cases hh : (decide (n = sHelp) || decide (n = sH)) with
      | false => simp
      | true =>
        simp at hh
        exact absurd ⟨rfl, by rcases hh with h | h <;> simp [h]⟩ hnh
  have h2 : (!eq && decide (n = sSource)) = false := by
    cases eq with
    | true => simp
    | false =>
      cases hh : decide (n = sSource) with
      | false => simp
      | true =>
        simp at hh
        exact absurd ⟨rfl, Or.inr (Or.inr hh)⟩ hnh
  simp only [hf, List.contains_nil, Bool.and_false, Bool.false_eq_true, if_false, h1, h2, hv]

/-- the option loop fails at a badly named option exactly with the error of that name -/
theorem scan_bad_option (env : Env) (spec : ArgSpec) (hwf : WF spec) (mode : Mode)
    (its1 : List Item) (f : Form) (t v : Str) (rest : List Str) (stdin : Str) (e : PErr)
    (hok : ∀ it ∈ its1, ItemOk env spec it)
    (hag : ∀ f t v, Item.opt f t v ∈ its1 → Agrees env spec (dashToUnderscore t))
    (hsyn : OptSyntax env f t)
    (hres : resolveOpt env spec (dashToUnderscore t) f.hasEq = .err e) :
    scan env spec mode (renderItems its1 ++ (renderItem (.opt f t v) ++ rest)) stdin none = .error e := by
  rw [scan_items env spec hwf mode _ its1 stdin hok hag]
  obtain ⟨c, t', rfl, hc, hd⟩ := hsyn.first
  have hopt : optName env spec (dashToUnderscore (c :: t')) f.hasEq = .error e := by
    simp [optName, hsyn.ident, hres]
  cases hf : f.hasEq with
  | true =>
    rw [hf] at hopt
    simp only [renderItem, hf, if_true, List.cons_append, List.nil_append, scan,
      classify_opt_eq f c t' v hc hd hsyn.noEq, hopt, prepend]
  | false =>
    rw [hf] at hopt
    simp only [renderItem, hf, Bool.false_eq_true, if_false, List.cons_append, List.nil_append, scan,
      classify_opt_sp f c t' hc hd hsyn.noEq, hopt, prepend]

theorem render_split (its1 : List Item) (it : Item) (its2 : List Item) (tail : Option (List Str)) :
    render (its1 ++ it :: its2) tail = renderItems its1 ++ (renderItem it ++ render its2 tail) := by
  induction its1 with
  | nil => simp [render, renderItems]
  | cons x xs ih => simp [render, renderItems, ih]

theorem globalOpts_suffix_aux : ∀ (n : Nat) (argv : List Str) (m : Option AMode) (o : GOut), argv.length ≤ n →
    globalOpts argv m = .ok o → ∃ pre, argv = pre ++ o.rest := by
  intro n
  induction n with
  | zero =>
    intro argv m o hl h
    have : argv = [] := List.length_eq_zero_iff.1 (by omega)
    subst this
    simp [globalOpts] at h
    exact ⟨[], by simp [← h]⟩
  | succ n ih =>
    intro argv m o hl h
    cases argv with
    | nil => simp [globalOpts] at h; exact ⟨[], by simp [← h]⟩
    | cons arg rest =>
      simp only [globalOpts] at h
      split at h
      · simp at h; exact ⟨[], by simp [← h]⟩
      · simp at h; exact ⟨[arg], by simp [← h]⟩
      · cases h
      · obtain ⟨pre, hp⟩ := ih rest _ o (by simp at hl; omega) h
        exact ⟨arg :: pre, by simp [← hp]⟩
      · split at h
        · cases h
        · rename_i v rest'
          split at h
          · cases h
          · obtain ⟨pre, hp⟩ := ih rest' _ o (by simp at hl; omega) h
            exact ⟨arg :: v :: pre, by simp [← hp]⟩

theorem pyBind_ok_conds {α : Type} (spec : ArgSpec) (dflt : Str → α) (pos : List α) (kw : List (Str × α))
    (b : Binding α) (h : pyBind spec dflt pos kw = .ok b) :
    (decide (pos.length > spec.args.length) && !spec.varargs) = false ∧
    (!spec.varkw && kw.any (fun p => !spec.names.contains p.1)) = false := by
  unfold pyBind at h
  simp only [] at h
  split at h
  · cases h
  rename_i c1
  split at h
  · cases h
  split at h
  · cases h
  split at h
  · cases h
  split at h
  · cases h
  rename_i c5
  exact ⟨by simpa using c1, by simpa using c5⟩

theorem mem_zip_of_mem_left {α β : Type} : ∀ (l1 : List α) (l2 : List β), l1.length = l2.length →
    ∀ x ∈ l1, ∃ y, (x, y) ∈ l1.zip l2 := by
  intro l1
  induction l1 with
  | nil => intro l2 _ x hx; simp at hx
  | cons a as ih =>
    intro l2 hl x hx
    cases l2 with
    | nil => simp at hl
    | cons b bs =>
      simp at hl
      rcases List.mem_cons.1 hx with rfl | hx
      · exact ⟨b, by simp⟩
      · obtain ⟨y, hy⟩ := ih bs hl x hx
        exact ⟨y, by simp [hy]⟩

/-- What the parser delivers is itself a call that Python binds. -/
theorem delivered_binds (env : Env) (spec : ArgSpec) (hwf : WF spec) (pos : List Expr) (kw : Dict)
    (hk : KeysOk spec kw) (a : List Val) (k : List (Str × Val)) (h : bindPhase env spec pos kw = .ok (a, k)) :
    spec.args.length ≤ a.length ∧ ∃ b, pyBind spec Val.dflt a k = .ok b := by
  obtain ⟨bE, hb, he⟩ := bindPhase_ok_binding env spec hwf pos kw hk _ h
  obtain ⟨f1, f2, f3, f4⟩ := pyBind_ok_fields spec Expr.dflt pos kw bE hb
  obtain ⟨c1, c5⟩ := pyBind_ok_conds spec Expr.dflt pos kw bE hb
  obtain ⟨va, vk, vs, ss, h1, h2, h3, h4, rfl, rfl⟩ := evalBinding_ok he
  have lva : va.length = spec.args.length := by
    rw [evalAll_length env _ _ h1, f1]
    simp only [List.length_append, List.length_take, List.length_map, List.length_drop]
    omega
  have lvk : vk.length = spec.kwonly.length := by
    rw [evalAll_length env _ _ h2, f3]; simp
  have lvs : vs.length = (pos.drop spec.args.length).length := by
    rw [evalAll_length env _ _ h3, f2]
  -- keys of the delivered kwargs
  have hkeys : ∀ q ∈ spec.kwonly.zip vk ++ ss, q.1 ∈ spec.kwonly ∨ (q.1 ∉ spec.names ∧ spec.varkw = true) := by
    intro q hq
    rcases List.mem_append.1 hq with hq | hq
    · left; exact (List.of_mem_zip hq).1
    · right
      obtain ⟨p, hp, hpk, _⟩ := evalKw_mem env _ _ h4 q hq
      rw [f4] at hp
      obtain ⟨hp1, hp2⟩ := List.mem_filter.1 hp
      refine ⟨by rw [← hpk]; simpa using hp2, ?_⟩
      cases hv : spec.varkw with
      | true => rfl
      | false =>
        rw [hv] at c5
        simp only [Bool.not_false, Bool.true_and] at c5
        have := List.any_eq_false.1 c5 p hp1
        simp only [Bool.not_eq_true] at this
        rw [hp2] at this
        cases this
  refine ⟨by simp [lva], ?_⟩
  unfold pyBind
  have g1 : (decide ((va ++ vs).length > spec.args.length) && !spec.varargs) = false := by
    cases hv : spec.varargs with
    | true => simp
    | false =>
      rw [hv] at c1
      simp only [Bool.not_false, Bool.and_true, decide_eq_false_iff_not] at c1 ⊢
      simp only [List.length_append, lva, lvs, List.length_drop]
      omega
  have hargs_nokey : ∀ x ∈ spec.args, dhas (spec.kwonly.zip vk ++ ss) x = false := by
    intro x hx
    rw [dhas_false_iff]
    intro q hq hqx
    rcases hkeys q hq with h | ⟨h, _⟩
    · exact hwf.disjoint hx (hqx ▸ h)
    · exact h (by rw [hqx]; unfold ArgSpec.names; exact List.mem_append_left _ hx)
  have g2 : (spec.args.take (va ++ vs).length).any (fun x => dhas (spec.kwonly.zip vk ++ ss) x) = false := by
    apply List.any_eq_false.2
    intro x hx
    rw [hargs_nokey x (List.mem_of_mem_take hx)]; simp
  have g3 : (spec.args.drop (va ++ vs).length).any
      (fun x => !dhas (spec.kwonly.zip vk ++ ss) x && !posDefault spec x) = false := by
    have : spec.args.drop (va ++ vs).length = [] := by
      apply List.drop_of_length_le; simp [lva]
    rw [this]; rfl
  have g4 : spec.kwonly.any (fun x => !dhas (spec.kwonly.zip vk ++ ss) x && !spec.kwdefaults.contains x) = false := by
    apply List.any_eq_false.2
    intro x hx
    obtain ⟨y, hy⟩ := mem_zip_of_mem_left spec.kwonly vk lvk.symm x hx
    have : dhas (spec.kwonly.zip vk ++ ss) x = true :=
      (dhas_iff _ _).2 ⟨(x, y), List.mem_append_left _ hy, rfl⟩
    simp [this]
  have g5 : (!spec.varkw && (spec.kwonly.zip vk ++ ss).any (fun p => !spec.names.contains p.1)) = false := by
    cases hv : spec.varkw with
    | true => simp
    | false =>
      simp only [Bool.not_false, Bool.true_and]
      apply List.any_eq_false.2
      intro q hq
      rcases hkeys q hq with h | ⟨_, h⟩
      · have : q.1 ∈ spec.names := by unfold ArgSpec.names; exact List.mem_append_right _ h
        simp [this]
      · rw [hv] at h; cases h
  simp only [g1, g2, g3, g4, g5]
  exact ⟨_, rfl⟩


end Pfb.C15
