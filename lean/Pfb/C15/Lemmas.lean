/-
  Pfb.C15.Lemmas — dictionary algebra, evaluation lemmas and the analysis of
  the binding loops of `_parse_auto_apply_args`.
-/
import Pfb.C15.Model
namespace Pfb.C15
open Pfb

/-! ### dictionaries -/

section dict
variable {α : Type}

theorem dget_none_iff (d : List (Str × α)) (k : Str) : dget d k = none ↔ ∀ p ∈ d, p.1 ≠ k := by
  induction d with
  | nil => simp [dget]
  | cons p r ih =>
    obtain ⟨k', v⟩ := p
    by_cases h : k' = k
    · simp [dget, h]
    · simp [dget, h, ih]

theorem dhas_cons (k' : Str) (v : α) (r : List (Str × α)) (k : Str) :
    dhas ((k', v) :: r) k = (decide (k' = k) || dhas r k) := by
  by_cases h : k' = k <;> simp [dhas, dget, h]

theorem dhas_iff (d : List (Str × α)) (k : Str) : dhas d k = true ↔ ∃ p ∈ d, p.1 = k := by
  induction d with
  | nil => simp [dhas, dget]
  | cons p r ih =>
    obtain ⟨k', v⟩ := p
    rw [dhas_cons]
    simp [ih]

theorem dhas_false_iff (d : List (Str × α)) (k : Str) : dhas d k = false ↔ ∀ p ∈ d, p.1 ≠ k := by
  unfold dhas
  rw [← dget_none_iff]
  cases dget d k <;> simp

theorem dget_mem {d : List (Str × α)} {k : Str} {v : α} (h : dget d k = some v) : (k, v) ∈ d := by
  induction d with
  | nil => simp [dget] at h
  | cons p r ih =>
    obtain ⟨k', v'⟩ := p
    by_cases hk : k' = k
    · simp [dget, hk] at h; subst h; subst hk; simp
    · simp [dget, hk] at h; exact List.mem_cons_of_mem _ (ih h)

theorem dget_dset_same (d : List (Str × α)) (k : Str) (v : α) : dget (dset d k v) k = some v := by
  induction d with
  | nil => simp [dset, dget]
  | cons p r ih =>
    obtain ⟨k', v'⟩ := p
    by_cases h : k' = k
    · simp [dset, dget, h]
    · simp [dset, dget, h, ih]

theorem dget_dset_other (d : List (Str × α)) (k k' : Str) (v : α) (h : k' ≠ k) :
    dget (dset d k v) k' = dget d k' := by
  induction d with
  | nil => simp [dset, dget, Ne.symm h]
  | cons p r ih =>
    obtain ⟨k'', v'⟩ := p
    by_cases h2 : k'' = k
    · subst h2; simp [dset, dget, Ne.symm h]
    · by_cases h3 : k'' = k'
      · subst h3; simp [dset, dget, h2]
      · simp [dset, dget, h2, h3, ih]

theorem dset_keys (d : List (Str × α)) (k : Str) (v : α) :
    ∀ p ∈ dset d k v, p.1 = k ∨ ∃ q ∈ d, q.1 = p.1 := by
  induction d with
  | nil => intro p hp; simp [dset] at hp; left; simp [hp]
  | cons q r ih =>
    obtain ⟨k', v'⟩ := q
    intro p hp
    by_cases h : k' = k
    · simp [dset, h] at hp
      rcases hp with rfl | hp
      · left; rfl
      · right; exact ⟨p, by simp [hp], rfl⟩
    · simp [dset, h] at hp
      rcases hp with rfl | hp
      · right; exact ⟨(k', v'), by simp, rfl⟩
      · rcases ih p hp with h1 | ⟨q, hq, hqk⟩
        · left; exact h1
        · right; exact ⟨q, by simp [hq], hqk⟩

/-- value of the last assignment to `k` -/
def lastOcc : List (Str × α) → Str → Option α
  | [], _ => none
  | (k', v) :: r, k =>
    match lastOcc r k with
    | some x => some x
    | none => if k' = k then some v else none

theorem dget_foldl_dset (occ : List (Str × α)) (d : List (Str × α)) (k : Str) :
    dget (occ.foldl (fun d p => dset d p.1 p.2) d) k = (lastOcc occ k).or (dget d k) := by
  induction occ generalizing d with
  | nil => simp [lastOcc]
  | cons p r ih =>
    obtain ⟨k', v⟩ := p
    simp only [List.foldl_cons, lastOcc]
    rw [ih]
    cases h : lastOcc r k with
    | some x => simp
    | none =>
      by_cases hk : k' = k
      · subst hk; simp [dget_dset_same]
      · simp [hk, dget_dset_other _ _ _ _ (Ne.symm hk)]

/-- **last occurrence wins**: the dictionary built from the assignments in order
    returns for every key the value of its last assignment. -/
theorem dget_dictOf (occ : List (Str × α)) (k : Str) : dget (dictOf occ) k = lastOcc occ k := by
  unfold dictOf
  rw [dget_foldl_dset]; simp [dget]

theorem foldl_dset_keys (occ : List (Str × α)) (d : List (Str × α)) :
    ∀ p ∈ occ.foldl (fun d p => dset d p.1 p.2) d, (∃ q ∈ occ, q.1 = p.1) ∨ (∃ q ∈ d, q.1 = p.1) := by
  induction occ generalizing d with
  | nil => intro p hp; right; exact ⟨p, hp, rfl⟩
  | cons q r ih =>
    intro p hp
    simp only [List.foldl_cons] at hp
    rcases ih _ p hp with ⟨q', hq', h⟩ | ⟨q', hq', h⟩
    · left; exact ⟨q', by simp [hq'], h⟩
    · rcases dset_keys d q.1 q.2 q' hq' with h1 | ⟨q'', hq'', h2⟩
      · left; exact ⟨q, by simp, by rw [← h, h1]⟩
      · right; exact ⟨q'', hq'', by rw [h2, h]⟩

theorem dictOf_keys (occ : List (Str × α)) : ∀ p ∈ dictOf occ, ∃ q ∈ occ, q.1 = p.1 := by
  intro p hp
  rcases foldl_dset_keys occ [] p hp with h | ⟨q, hq, _⟩
  · exact h
  · simp at hq

theorem derase_cons (k' : Str) (v : α) (r : List (Str × α)) (a : Str) :
    derase ((k', v) :: r) a = if k' = a then derase r a else (k', v) :: derase r a := by
  by_cases h : k' = a <;> simp [derase, h]

theorem dget_derase (d : List (Str × α)) (a k : Str) :
    dget (derase d a) k = if k = a then none else dget d k := by
  induction d with
  | nil => simp [derase, dget]
  | cons p r ih =>
    obtain ⟨k', v⟩ := p
    rw [derase_cons]
    by_cases h1 : k' = a
    · subst h1
      by_cases h2 : k = k'
      · subst h2; simp [ih]
      · simp [h2, ih, dget, Ne.symm h2]
    · by_cases h2 : k = a
      · subst h2; simp [h1, dget, ih]
      · simp [h1, h2, dget, ih]

theorem dhas_derase_ne (d : List (Str × α)) (a k : Str) (h : k ≠ a) : dhas (derase d a) k = dhas d k := by
  simp [dhas, dget_derase, h]

theorem dhas_of_dhas_derase (d : List (Str × α)) (a k : Str) (h : dhas (derase d a) k = true) :
    dhas d k = true := by
  by_cases hk : k = a
  · simp [dhas, dget_derase, hk] at h
  · rwa [dhas_derase_ne _ _ _ hk] at h

end dict

/-! ### evaluation -/

theorem evalExpr_error (env : Env) (e : Expr) (x : PErr) (h : evalExpr env e = .error x) : x = .evalError := by
  cases e with
  | dflt n => simp [evalExpr] at h
  | user s m =>
    cases m with
    | string => simp [evalExpr] at h
    | eval =>
      simp only [evalExpr] at h
      split at h
      · simp at h; exact h.symm
      · split at h <;> simp at h; exact h.symm
    | auto =>
      simp only [evalExpr] at h
      split at h
      · simp at h
      · split at h
        · simp at h
        · split at h <;> simp at h; exact h.symm

/-- What a delivered value can be: the very string, or its evaluation (never in
    string mode, never for a blank string, in auto mode only for a parsable
    one and only when the evaluator produced a value). -/
theorem evalExpr_user (env : Env) (s : Str) (m : Mode) (v : Val) (h : evalExpr env (.user s m) = .ok v) :
    v = .raw s ∨ (v = .evaluated s ∧ m ≠ .string ∧ blank s = false ∧ env.outcome s = .value
                  ∧ (m = .auto → env.parsable s = true)) := by
  cases m with
  | string => simp [evalExpr] at h; left; exact h.symm
  | eval =>
    simp only [evalExpr] at h
    split at h
    · simp at h
    · rename_i hb
      split at h
      · rename_i ho; simp at h; right; simp [← h, ho]; simpa using hb
      · simp at h
  | auto =>
    simp only [evalExpr] at h
    split at h
    · simp at h; left; exact h.symm
    · rename_i hb
      split at h
      · simp at h; left; exact h.symm
      · rename_i hp
        split at h
        · rename_i ho; simp at h; right; simp [← h, ho]; constructor
          · simpa using hb
          · simpa using hp
        · simp at h; left; exact h.symm
        · simp at h

theorem evalExpr_auto_raw_reason (env : Env) (s : Str) (h : evalExpr env (.user s .auto) = .ok (.raw s)) :
    blank s = true ∨ env.parsable s = false ∨ env.outcome s = .unimportable := by
  simp only [evalExpr] at h
  split at h
  · left; assumption
  · split at h
    · rename_i hp; right; left; simpa using hp
    · split at h
      · simp at h
      · rename_i ho; right; right; exact ho
      · simp at h

theorem evalAll_append (env : Env) (l1 l2 : List Expr) :
    evalAll env (l1 ++ l2) =
      match evalAll env l1 with
      | .error e => .error e
      | .ok v1 => match evalAll env l2 with
        | .error e => .error e
        | .ok v2 => .ok (v1 ++ v2) := by
  induction l1 with
  | nil => simp [evalAll]; cases evalAll env l2 <;> rfl
  | cons e es ih =>
    simp only [List.cons_append, evalAll]
    cases evalExpr env e with
    | error x => rfl
    | ok v =>
      simp only [ih]
      cases evalAll env es with
      | error x => rfl
      | ok v1 =>
        cases evalAll env l2 <;> rfl

theorem evalAll_error (env : Env) (l : List Expr) (x : PErr) (h : evalAll env l = .error x) : x = .evalError := by
  induction l with
  | nil => simp [evalAll] at h
  | cons e es ih =>
    simp only [evalAll] at h
    cases he : evalExpr env e with
    | error y => rw [he] at h; simp at h; subst h; exact evalExpr_error env e y he
    | ok v =>
      rw [he] at h
      cases hes : evalAll env es with
      | error y => rw [hes] at h; simp at h; subst h; exact ih hes
      | ok vs => rw [hes] at h; simp at h

theorem evalKw_error (env : Env) (l : Dict) (x : PErr) (h : evalKw env l = .error x) : x = .evalError := by
  induction l with
  | nil => simp [evalKw] at h
  | cons p es ih =>
    obtain ⟨k, e⟩ := p
    simp only [evalKw] at h
    cases he : evalExpr env e with
    | error y => rw [he] at h; simp at h; subst h; exact evalExpr_error env e y he
    | ok v =>
      rw [he] at h
      cases hes : evalKw env es with
      | error y => rw [hes] at h; simp at h; subst h; exact ih hes
      | ok vs => rw [hes] at h; simp at h

theorem evalAll_length (env : Env) (l : List Expr) (vs : List Val) (h : evalAll env l = .ok vs) :
    vs.length = l.length := by
  induction l generalizing vs with
  | nil => simp [evalAll] at h; simp [← h]
  | cons e es ih =>
    simp only [evalAll] at h
    cases he : evalExpr env e with
    | error y => rw [he] at h; simp at h
    | ok v =>
      rw [he] at h
      cases hes : evalAll env es with
      | error y => rw [hes] at h; simp at h
      | ok ws => rw [hes] at h; simp at h; subst h; simp [ih ws hes]

/-- every evaluated value comes from one of the expressions -/
theorem evalAll_mem (env : Env) (l : List Expr) (vs : List Val) (h : evalAll env l = .ok vs) :
    ∀ v ∈ vs, ∃ e ∈ l, evalExpr env e = .ok v := by
  induction l generalizing vs with
  | nil => simp [evalAll] at h; subst h; simp
  | cons e es ih =>
    simp only [evalAll] at h
    cases he : evalExpr env e with
    | error y => rw [he] at h; simp at h
    | ok v =>
      rw [he] at h
      cases hes : evalAll env es with
      | error y => rw [hes] at h; simp at h
      | ok ws =>
        rw [hes] at h; simp at h; subst h
        intro x hx
        simp at hx
        rcases hx with rfl | hx
        · exact ⟨e, by simp, he⟩
        · obtain ⟨e', he', h'⟩ := ih ws hes x hx
          exact ⟨e', by simp [he'], h'⟩

theorem evalKw_mem (env : Env) (l : Dict) (vs : List (Str × Val)) (h : evalKw env l = .ok vs) :
    ∀ q ∈ vs, ∃ p ∈ l, p.1 = q.1 ∧ evalExpr env p.2 = .ok q.2 := by
  induction l generalizing vs with
  | nil => simp [evalKw] at h; subst h; simp
  | cons p es ih =>
    obtain ⟨k, e⟩ := p
    simp only [evalKw] at h
    cases he : evalExpr env e with
    | error y => rw [he] at h; simp at h
    | ok v =>
      rw [he] at h
      cases hes : evalKw env es with
      | error y => rw [hes] at h; simp at h
      | ok ws =>
        rw [hes] at h; simp at h; subst h
        intro x hx
        simp at hx
        rcases hx with rfl | hx
        · exact ⟨(k, e), by simp, rfl, he⟩
        · obtain ⟨e', he', h'⟩ := ih ws hes x hx
          exact ⟨e', by simp [he'], h'⟩

/-! ### the binding loops -/

/-- the expression chosen for each parameter that is not filled positionally -/
def argExprs (kw : Dict) (as : List Str) : List Expr := as.map (fun a => (dget kw a).getD (.dflt a))

theorem filter_not_contains_of_dget_none (kw : Dict) (a : Str) (as : List Str) (h : dget kw a = none) :
    kw.filter (fun p => !(a :: as).contains p.1) = kw.filter (fun p => !as.contains p.1) := by
  apply List.filter_congr
  intro p hp
  have := (dget_none_iff kw a).1 h p hp
  simp [this]

theorem derase_filter (kw : Dict) (a : Str) (as : List Str) :
    (derase kw a).filter (fun p => !as.contains p.1) = kw.filter (fun p => !(a :: as).contains p.1) := by
  unfold derase
  rw [List.filter_filter]
  apply List.filter_congr
  intro p _
  by_cases h : p.1 = a <;> simp [h]

theorem argExprs_derase (kw : Dict) (a : Str) (as : List Str) (h : a ∉ as) :
    argExprs (derase kw a) as = argExprs kw as := by
  unfold argExprs
  apply List.map_congr_left
  intro x hx
  have : x ≠ a := fun e => h (e ▸ hx)
  simp [dget_derase, this]

/-- When the call is well-formed for the positional parameters, the first loop
    evaluates, in order, the positional expressions and then — for every
    remaining parameter — the keyword expression or the default. -/
theorem bindArgs_spec (env : Env) (spec : ArgSpec) :
    ∀ (as : List Str) (pos : List Expr) (kw : Dict), as.Nodup →
      (∀ a ∈ as.take pos.length, dhas kw a = false) →
      (∀ a ∈ as.drop pos.length, dhas kw a = true ∨ hasDefault spec a = true) →
      bindArgs env spec as pos kw =
        match evalAll env (pos.take as.length ++ argExprs kw (as.drop pos.length)) with
        | .error e => .error e
        | .ok vs => .ok (vs, pos.drop as.length, kw.filter (fun p => !(as.drop pos.length).contains p.1)) := by
  intro as
  induction as with
  | nil =>
    intro pos kw _ _ _
    have : kw.filter (fun _ => true) = kw := List.filter_eq_self.2 (fun _ _ => rfl)
    simp [bindArgs, argExprs, evalAll, this]
  | cons a as ih =>
    intro pos kw hnd h1 h2
    have hnd' : as.Nodup := (List.nodup_cons.1 hnd).2
    have ha : a ∉ as := (List.nodup_cons.1 hnd).1
    cases pos with
    | cons p ps =>
      have hka : dhas kw a = false := h1 a (by simp)
      have h1' : ∀ x ∈ as.take ps.length, dhas kw x = false := fun x hx => h1 x (by simp [hx])
      have h2' : ∀ x ∈ as.drop ps.length, dhas kw x = true ∨ hasDefault spec x = true :=
        fun x hx => h2 x (by simpa using hx)
      simp only [bindArgs, hka, List.length_cons, List.take_succ_cons, List.drop_succ_cons, List.cons_append,
        evalAll, Bool.false_eq_true, if_false]
      cases evalExpr env p with
      | error e => rfl
      | ok v =>
        simp only [ih ps kw hnd' h1' h2']
        cases evalAll env (ps.take as.length ++ argExprs kw (as.drop ps.length)) with
        | error e => rfl
        | ok vs => rfl
    | nil =>
      simp only [List.length_nil, List.drop_zero, List.take_nil, List.nil_append, List.drop_nil] at h2 ⊢
      simp only [bindArgs, argExprs, List.map_cons, evalAll]
      have h2' : ∀ (kw' : Dict), (∀ x ∈ as, dhas kw' x = dhas kw x) →
          ∀ x ∈ as.drop ([] : List Expr).length, dhas kw' x = true ∨ hasDefault spec x = true := by
        intro kw' hk x hx
        simp at hx
        rw [hk x hx]; exact h2 x (by simp [hx])
      cases hg : dget kw a with
      | some e =>
        simp only [Option.getD_some]
        cases evalExpr env e with
        | error x => rfl
        | ok v =>
          have hk : ∀ x ∈ as, dhas (derase kw a) x = dhas kw x := by
            intro x hx; exact dhas_derase_ne _ _ _ (by intro e; subst e; exact ha hx)
          have := ih [] (derase kw a) hnd' (by simp) (h2' _ hk)
          simp only [List.length_nil, List.drop_zero, List.take_nil, List.nil_append, List.drop_nil] at this
          rw [this, argExprs_derase _ _ _ ha, derase_filter]
          unfold argExprs
          cases evalAll env (as.map fun a => (dget kw a).getD (.dflt a)) with
          | error x => rfl
          | ok vs => rfl
      | none =>
        have hd : hasDefault spec a = true := by
          rcases h2 a (by simp) with h | h
          · simp [dhas, hg] at h
          · exact h
        simp only [hd, if_true, Option.getD_none, evalExpr]
        have := ih [] kw hnd' (by simp) (h2' _ (fun _ _ => rfl))
        simp only [List.length_nil, List.drop_zero, List.take_nil, List.nil_append, List.drop_nil] at this
        rw [this, filter_not_contains_of_dget_none _ _ _ hg]
        unfold argExprs
        cases evalAll env (as.map fun a => (dget kw a).getD (.dflt a)) with
        | error x => rfl
        | ok vs => rfl

theorem bindKwonly_spec (env : Env) (spec : ArgSpec) :
    ∀ (as : List Str) (kw : Dict), as.Nodup →
      (∀ a ∈ as, dhas kw a = true ∨ hasDefault spec a = true) →
      bindKwonly env spec as kw =
        match evalAll env (argExprs kw as) with
        | .error e => .error e
        | .ok vs => .ok (as.zip vs, kw.filter (fun p => !as.contains p.1)) := by
  intro as
  induction as with
  | nil =>
    intro kw _ _
    have : kw.filter (fun _ => true) = kw := List.filter_eq_self.2 (fun _ _ => rfl)
    simp [bindKwonly, argExprs, evalAll, this]
  | cons a as ih =>
    intro kw hnd h2
    have hnd' : as.Nodup := (List.nodup_cons.1 hnd).2
    have ha : a ∉ as := (List.nodup_cons.1 hnd).1
    simp only [bindKwonly, argExprs, List.map_cons, evalAll]
    cases hg : dget kw a with
    | some e =>
      simp only [Option.getD_some]
      cases evalExpr env e with
      | error x => rfl
      | ok v =>
        have hk : ∀ x ∈ as, dhas (derase kw a) x = true ∨ hasDefault spec x = true := by
          intro x hx
          rw [dhas_derase_ne _ _ _ (by intro e; subst e; exact ha hx)]; exact h2 x (by simp [hx])
        rw [ih (derase kw a) hnd' hk, argExprs_derase _ _ _ ha, derase_filter]
        unfold argExprs
        cases evalAll env (as.map fun a => (dget kw a).getD (.dflt a)) with
        | error x => rfl
        | ok vs => rfl
    | none =>
      have hd : hasDefault spec a = true := by
        rcases h2 a (by simp) with h | h
        · simp [dhas, hg] at h
        · exact h
      simp only [hd, if_true, Option.getD_none, evalExpr]
      rw [ih kw hnd' (fun x hx => h2 x (by simp [hx])), filter_not_contains_of_dget_none _ _ _ hg]
      unfold argExprs
      cases evalAll env (as.map fun a => (dget kw a).getD (.dflt a)) with
      | error x => rfl
      | ok vs => rfl

/-- the first loop only succeeds on a call that is well-formed for the positional parameters -/
theorem bindArgs_ok (env : Env) (spec : ArgSpec) :
    ∀ (as : List Str) (pos : List Expr) (kw : Dict) r, bindArgs env spec as pos kw = .ok r →
      (∀ a ∈ as.take pos.length, dhas kw a = false) ∧
      (∀ a ∈ as.drop pos.length, dhas kw a = true ∨ hasDefault spec a = true) := by
  intro as
  induction as with
  | nil => intro pos kw r _; simp
  | cons a as ih =>
    intro pos kw r h
    cases pos with
    | cons p ps =>
      simp only [bindArgs] at h
      split at h
      · simp at h
      · rename_i hka
        cases he : evalExpr env p with
        | error x => rw [he] at h; simp at h
        | ok v =>
          rw [he] at h
          cases hr : bindArgs env spec as ps kw with
          | error x => rw [hr] at h; simp [consArg] at h
          | ok r' =>
            obtain ⟨i1, i2⟩ := ih ps kw r' hr
            constructor
            · intro x hx
              simp at hx
              rcases hx with rfl | hx
              · simpa using hka
              · exact i1 x hx
            · intro x hx
              exact i2 x (by simpa using hx)
    | nil =>
      simp only [bindArgs] at h
      refine ⟨by simp, ?_⟩
      intro x hx
      simp at hx
      cases hg : dget kw a with
      | some e =>
        simp only [hg] at h
        rcases hx with rfl | hx
        · left; simp [dhas, hg]
        · cases he : evalExpr env e with
          | error y => rw [he] at h; simp at h
          | ok v =>
            rw [he] at h
            cases hr : bindArgs env spec as [] (derase kw a) with
            | error y => rw [hr] at h; simp [consArg] at h
            | ok r' =>
              rcases (ih [] _ r' hr).2 x (by simpa using hx) with h3 | h3
              · left; exact dhas_of_dhas_derase _ _ _ h3
              · right; exact h3
      | none =>
        simp only [hg] at h
        split at h
        · rename_i hd
          rcases hx with rfl | hx
          · right; exact hd
          · cases hr : bindArgs env spec as [] kw with
            | error y => rw [hr] at h; simp [consArg] at h
            | ok r' => exact (ih [] _ r' hr).2 x (by simpa using hx)
        · simp at h

/-- … and when it fails it names a reason that is present -/
theorem bindArgs_err (env : Env) (spec : ArgSpec) :
    ∀ (as : List Str) (pos : List Expr) (kw : Dict) x, as.Nodup → bindArgs env spec as pos kw = .error x →
      x = .evalError ∨
      (x = .bothPosKw ∧ ∃ a ∈ as.take pos.length, dhas kw a = true) ∨
      (x = .missingRequired ∧ ∃ a ∈ as.drop pos.length, dhas kw a = false ∧ hasDefault spec a = false) := by
  intro as
  induction as with
  | nil => intro pos kw x _ h; simp [bindArgs] at h
  | cons a as ih =>
    intro pos kw x hnd h
    have hnd' : as.Nodup := (List.nodup_cons.1 hnd).2
    have ha : a ∉ as := (List.nodup_cons.1 hnd).1
    cases pos with
    | cons p ps =>
      simp only [bindArgs] at h
      split at h
      · rename_i hka
        simp at h; subst h
        right; left; exact ⟨rfl, a, by simp, hka⟩
      · cases he : evalExpr env p with
        | error y => rw [he] at h; simp at h; subst h; left; exact evalExpr_error _ _ _ he
        | ok v =>
          rw [he] at h
          cases hr : bindArgs env spec as ps kw with
          | ok r' => rw [hr] at h; obtain ⟨_, _, _⟩ := r'; simp [consArg] at h
          | error y =>
            rw [hr] at h; simp [consArg] at h; subst h
            rcases ih ps kw y hnd' hr with h1 | ⟨h1, b, hb, hb2⟩ | ⟨h1, b, hb, hb2⟩
            · left; exact h1
            · right; left; exact ⟨h1, b, by simp [hb], hb2⟩
            · right; right; exact ⟨h1, b, by simpa using hb, hb2⟩
    | nil =>
      simp only [bindArgs] at h
      cases hg : dget kw a with
      | some e =>
        simp only [hg] at h
        cases he : evalExpr env e with
        | error y => rw [he] at h; simp at h; subst h; left; exact evalExpr_error _ _ _ he
        | ok v =>
          rw [he] at h
          cases hr : bindArgs env spec as [] (derase kw a) with
          | ok r' => rw [hr] at h; obtain ⟨_, _, _⟩ := r'; simp [consArg] at h
          | error y =>
            rw [hr] at h; simp [consArg] at h; subst h
            rcases ih [] _ y hnd' hr with h1 | ⟨_, b, hb, _⟩ | ⟨h1, b, hb, hb2, hb3⟩
            · left; exact h1
            · simp at hb
            · right; right
              simp at hb
              refine ⟨h1, b, by simp [hb], ?_, hb3⟩
              rwa [dhas_derase_ne _ _ _ (by intro e; subst e; exact ha hb)] at hb2
      | none =>
        simp only [hg] at h
        split at h
        · cases hr : bindArgs env spec as [] kw with
          | ok r' => rw [hr] at h; obtain ⟨_, _, _⟩ := r'; simp [consArg] at h
          | error y =>
            rw [hr] at h; simp [consArg] at h; subst h
            rcases ih [] _ y hnd' hr with h1 | ⟨_, b, hb, _⟩ | ⟨h1, b, hb, hb2, hb3⟩
            · left; exact h1
            · simp at hb
            · right; right
              simp at hb
              exact ⟨h1, b, by simp [hb], hb2, hb3⟩
        · rename_i hd
          simp at h; subst h
          right; right
          exact ⟨rfl, a, by simp, by simp [dhas, hg], by simpa using hd⟩

theorem bindKwonly_ok (env : Env) (spec : ArgSpec) :
    ∀ (as : List Str) (kw : Dict) r, bindKwonly env spec as kw = .ok r →
      ∀ a ∈ as, dhas kw a = true ∨ hasDefault spec a = true := by
  intro as
  induction as with
  | nil => intro kw r _; simp
  | cons a as ih =>
    intro kw r h x hx
    simp only [bindKwonly] at h
    simp at hx
    cases hg : dget kw a with
    | some e =>
      simp only [hg] at h
      rcases hx with rfl | hx
      · left; simp [dhas, hg]
      · cases he : evalExpr env e with
        | error y => rw [he] at h; simp at h
        | ok v =>
          rw [he] at h
          cases hr : bindKwonly env spec as (derase kw a) with
          | error y => rw [hr] at h; simp [consKw] at h
          | ok r' =>
            rcases ih _ r' hr x hx with h3 | h3
            · left; exact dhas_of_dhas_derase _ _ _ h3
            · right; exact h3
    | none =>
      simp only [hg] at h
      split at h
      · rename_i hd
        rcases hx with rfl | hx
        · right; exact hd
        · cases hr : bindKwonly env spec as kw with
          | error y => rw [hr] at h; simp [consKw] at h
          | ok r' => exact ih _ r' hr x hx
      · simp at h

theorem bindKwonly_err (env : Env) (spec : ArgSpec) :
    ∀ (as : List Str) (kw : Dict) x, as.Nodup → bindKwonly env spec as kw = .error x →
      x = .evalError ∨
      (x = .missingRequiredKw ∧ ∃ a ∈ as, dhas kw a = false ∧ hasDefault spec a = false) := by
  intro as
  induction as with
  | nil => intro kw x _ h; simp [bindKwonly] at h
  | cons a as ih =>
    intro kw x hnd h
    have hnd' : as.Nodup := (List.nodup_cons.1 hnd).2
    have ha : a ∉ as := (List.nodup_cons.1 hnd).1
    simp only [bindKwonly] at h
    cases hg : dget kw a with
    | some e =>
      simp only [hg] at h
      cases he : evalExpr env e with
      | error y => rw [he] at h; simp at h; subst h; left; exact evalExpr_error _ _ _ he
      | ok v =>
        rw [he] at h
        cases hr : bindKwonly env spec as (derase kw a) with
        | ok r' => rw [hr] at h; obtain ⟨_, _⟩ := r'; simp [consKw] at h
        | error y =>
          rw [hr] at h; simp [consKw] at h; subst h
          rcases ih _ y hnd' hr with h1 | ⟨h1, b, hb, hb2, hb3⟩
          · left; exact h1
          · right
            refine ⟨h1, b, by simp [hb], ?_, hb3⟩
            rwa [dhas_derase_ne _ _ _ (by intro e; subst e; exact ha hb)] at hb2
    | none =>
      simp only [hg] at h
      split at h
      · cases hr : bindKwonly env spec as kw with
        | ok r' => rw [hr] at h; obtain ⟨_, _⟩ := r'; simp [consKw] at h
        | error y =>
          rw [hr] at h; simp [consKw] at h; subst h
          rcases ih _ y hnd' hr with h1 | ⟨h1, b, hb, hb2, hb3⟩
          · left; exact h1
          · right; exact ⟨h1, b, by simp [hb], hb2, hb3⟩
      · rename_i hd
        simp at h; subst h
        right
        exact ⟨rfl, a, by simp, by simp [dhas, hg], by simpa using hd⟩

theorem dget_filter_keys (kw : Dict) (f : Str → Bool) (a : Str) :
    dget (kw.filter (fun p => f p.1)) a = if f a then dget kw a else none := by
  induction kw with
  | nil => simp [dget]
  | cons p r ih =>
    obtain ⟨k, v⟩ := p
    by_cases hk : k = a
    · subst hk
      by_cases hf : f k <;> simp [List.filter_cons, hf, dget, ih]
    · by_cases hf : f k <;> simp [List.filter_cons, hf, dget, hk, ih]

/-! ### well-formed signatures -/

/-- What `inspect.getfullargspec` guarantees: parameter names are distinct and
    `kwonlydefaults` only names keyword-only parameters. -/
def WF (spec : ArgSpec) : Prop := spec.names.Nodup ∧ ∀ a ∈ spec.kwdefaults, a ∈ spec.kwonly

instance (spec : ArgSpec) : Decidable (WF spec) := by unfold WF; infer_instance

theorem WF.args_nodup {spec : ArgSpec} (h : WF spec) : spec.args.Nodup :=
  (List.nodup_append.1 h.1).1

theorem WF.kwonly_nodup {spec : ArgSpec} (h : WF spec) : spec.kwonly.Nodup :=
  (List.nodup_append.1 h.1).2.1

theorem WF.disjoint {spec : ArgSpec} (h : WF spec) {a : Str} (h1 : a ∈ spec.args) (h2 : a ∈ spec.kwonly) : False :=
  (List.nodup_append.1 h.1).2.2 a h1 a h2 rfl

theorem hasDefault_arg {spec : ArgSpec} (h : WF spec) {a : Str} (ha : a ∈ spec.args) :
    hasDefault spec a = posDefault spec a := by
  unfold hasDefault posDefault
  by_cases hk : a ∈ spec.kwdefaults
  · exact (h.disjoint ha (h.2 a hk)).elim
  · simp [hk]

theorem hasDefault_kwonly {spec : ArgSpec} (h : WF spec) {a : Str} (ha : a ∈ spec.kwonly) :
    hasDefault spec a = spec.kwdefaults.contains a := by
  unfold hasDefault
  by_cases hk : a ∈ spec.args.drop (spec.args.length - spec.ndefaults)
  · exact (h.disjoint (List.mem_of_mem_drop hk) ha).elim
  · simp [hk]

end Pfb.C15
