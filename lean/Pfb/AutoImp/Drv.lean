/-
  Pfb.AutoImp.Drv — JSON glue of the C06/C07 drivers (trusted base, not part of the model).
  One request = one history: universe, database table, preloads, namespace stack, calls.
-/
import Pfb.DriverUtil
import Pfb.AutoImp.PyWorld
namespace Pfb.AutoImp.Drv
open Lean Pfb Pfb.Drv Pfb.AutoImp

def splitDotAux : Str → Str → List Str
  | [], cur => [cur.reverse]
  | c :: cs, cur => if c = '.' then cur.reverse :: splitDotAux cs [] else splitDotAux cs (c :: cur)

def splitDot (s : String) : Dotted := splitDotAux s.toList []

def dotJ (d : Dotted) : Json := Json.str (String.ofList (PyW.joinDot d))

def descOf (w : PyW) (o : Obj) : String :=
  match w.info.lookup o with
  | some .none => "none"
  | some (.ext i) => s!"ext:{i}"
  | some (.module p _) => "mod:" ++ String.ofList (PyW.joinDot p)
  | some (.tagged t _) => "tag:" ++ String.ofList t
  | none => s!"unknown:{o}"

def parseRaise (j : Json) : Raise :=
  match j with
  | .str "early" => .early
  | .str "syntax" => .early
  | .str "late" => .late
  | _ => .no

def parseEffect (j : Json) : Except String Effect := do
  let k ← jstr j "k"
  if k == "alias" then
    let attr ← jstr j "attr"
    let src ← jstr j "src"
    return .alias attr.toList (splitDot src)
  let target ← jstr j "target"
  let tag ← jstr j "tag"
  if k == "setattr" then
    let attr ← jstr j "attr"
    pure (.setattr (splitDot target) attr.toList tag.toList)
  else pure (.sysmod (splitDot target) tag.toList)

def parseSpec (j : Json) : Except String ModSpec := do
  let path ← jstr j "path"
  let pkg ← jbool j "pkg"
  let raises := parseRaise ((j.getObjVal? "raises").toOption.getD Json.null)
  let members ← jStrList (← jarr j "members")
  let effects ← (← jarr j "effects").toList.mapM parseEffect
  pure { path := splitDot path, pkg := pkg, raises := raises, members := members, effects := effects }

def parseImp (j : Json) : Except String Import := do
  let a ← j.getArr?
  if a.size ≠ 2 then throw "imp"
  pure ⟨splitDot (← a[0]!.getStr?), splitDot (← a[1]!.getStr?)⟩

def parseDb (a : Array Json) : Except String DB :=
  a.toList.mapM fun e => do
    let p ← e.getArr?
    if p.size ≠ 2 then throw "dbentry"
    let k ← p[0]!.getStr?
    let imps ← (← p[1]!.getArr?).toList.mapM parseImp
    pure (splitDot k, imps)

/-- build one namespace binding value; may import (as the harness does for unloaded `reg` values) -/
def mkValue (w : PyW) (v : Json) : Except String (Obj × PyW) := do
  let k ← jstr v "k"
  if k == "reg" then
    let p := splitDot (← jstr v "path")
    match w.modOf p with
    | some o => pure (o, w)
    | none =>
      let r := PyW.importChain w p
      pure ((r.2.modOf p).getD PyW.noneObj, r.2)
  else if k == "none" then pure (PyW.noneObj, w)
  else
    let i ← jnat v "id"
    pure (w.alloc (.ext i))

def mkNs (w : PyW) (binds : List Json) : Except String (NS × PyW) :=
  binds.foldlM (init := (([] : NS), w)) fun (ns, w) b => do
    let a ← b.getArr?
    if a.size ≠ 2 then throw "bind"
    let k ← a[0]!.getStr?
    let (o, w') ← mkValue w a[1]!
    pure (ns ++ [(k.toList, o)], w')

def nsJ (w : PyW) (nss : List NS) : Json :=
  Json.arr (nss.map fun ns => Json.arr (ns.map fun (k, o) =>
    Json.arr #[strJ k, Json.str (descOf w o), natJ o]).toArray).toArray

def attrNames (w : PyW) (o : Obj) : List Name :=
  (w.attrs.filter (fun e => e.1.1 == o)).map (fun e => e.1.2) |>.eraseDups

def regJ (w : PyW) : Json :=
  let mods := Json.mkObj (w.mods.map fun (p, o) =>
    (String.ofList (PyW.joinDot p), Json.arr #[Json.str (descOf w o), natJ o]))
  let objs := (w.mods.map (·.2)).eraseDups
  let attrs := Json.mkObj (objs.map fun o =>
    (toString o, Json.arr ((attrNames w o).filterMap fun n =>
      (w.getattr o n).map fun v => Json.arr #[strJ n, Json.str (descOf w v), natJ v]).toArray))
  Json.mkObj [("mods", mods), ("attrs", attrs)]

def eventJ : Event → Json
  | .find p => Json.arr #[Json.str "find", dotJ p]
  | .probe p => Json.arr #[Json.str "probe", dotJ p]
  | .stmt imp =>
    if imp.importAs == imp.fullname then
      Json.arr #[Json.str "stmt", dotJ imp.fullname, Json.arr #[], strJ (imp.fullname.headD [])]
    else if imp.fullname.length == 1 then
      Json.arr #[Json.str "stmt", dotJ imp.fullname, Json.arr #[], dotJ imp.importAs]
    else
      Json.arr #[Json.str "stmt", dotJ imp.fullname.dropLast,
                 Json.arr #[strJ (imp.fullname.getLast?.getD [])], dotJ imp.importAs]

def outcomeJ : Outcome → Json
  | .ok b => Json.bool b
  | .assertion => Json.str "assertion"

def attemptedJ (att : List (Dotted × Bool)) : Json :=
  let keys := (att.map (·.1)).eraseDups
  Json.arr (keys.filterMap fun k => (att.lookup k).map fun b => Json.arr #[dotJ k, Json.bool b]).toArray

def setNs : List NS → Nat → NS → List NS
  | [], _, _ => []
  | _ :: rest, 0, ns => ns :: rest
  | x :: rest, i + 1, ns => x :: setNs rest i ns

/-- run one call on the view `idxs` of the pool of namespaces (the stack the caller passed), write the view back -/
def stepView (db : DB) (c : Call) (idxs : List Nat) (st : State PyW) : Outcome × State PyW × List NS :=
  let pool := st.nss
  let view := idxs.map (getNs pool)
  let (o, st') := step pyUniv db c { st with nss := view }
  let pool' := (idxs.zip st'.nss).foldl (fun p (i, ns) => setNs p i ns) pool
  (o, { st' with nss := pool' }, st'.nss)

def parseStack (j : Json) (n : Nat) : List Nat :=
  match jarr j "stack" with
  | .ok a => a.toList.filterMap fun x => x.getNat?.toOption
  | .error _ => List.range n

def parseCall (j : Json) : Except String (Call × List Dotted) := do
  let kind ← jstr j "kind"
  match kind with
  | "newcell" => pure (.newCell, [])
  | "try" =>
    let f ← jstr j "fullname"
    let a ← jstr j "import_as"
    let i ← jnat j "ns"
    pure (.tryImp ⟨splitDot f, splitDot a⟩ i, [])
  | "symbol" =>
    let n ← jstr j "name"
    let sni := match jarr j "sni" with
      | .ok a => (a.toList.filterMap fun x => x.getStr?.toOption).map splitDot
      | .error _ => []
    pure (.symbol (splitDot n), sni)
  | "code" =>
    match jopt j "missing" with
    | none => pure (.code none, [])
    | some m =>
      let ds := (← m.getArr?).toList.filterMap fun x => x.getStr?.toOption
      pure (.code (some (ds.map splitDot)), ds.map splitDot)
  | _ => throw s!"call kind {kind}"

/-- the hypotheses `DbKeyed` and `DbShape` of the theorems, checked on the table of this case -/
def dbKeyed (db : DB) : Bool :=
  db.all fun (k, imps) => imps.all fun imp =>
    imp.importAs == k && (imp.importAs == imp.fullname || imp.importAs.length == 1)

def handle (j : Json) : Except String Json := do
  let op ← jstr j "op"
  match op with
  | "history" =>
    let spec ← (← jarr j "universe").toList.mapM parseSpec
    let db ← parseDb (← jarr j "dbmap")
    let preload ← jStrList (← jarr j "preload")
    let w0 := preload.foldl (fun w p => (PyW.importChain w (splitDot (String.ofList p))).2) (PyW.empty spec)
    let (nss, w1) ← (← jarr j "nss").toList.foldlM (init := (([] : List NS), w0)) fun (acc, w) nsj => do
      let (ns, w') ← mkNs w (← nsj.getArr?).toList
      pure (acc ++ [ns], w')
    let w1 := { w1 with events := [], existsCache := [] }
    let calls ← (← jarr j "calls").toList.mapM parseCall
    let st0 : State PyW := { nss := nss, failed := [], attempted := [], w := w1, log := [] }
    let ns0 := nsJ w1 nss
    let reg0 := regJ w1
    let callsJ := (← jarr j "calls").toList
    let (outs, _) := (calls.zip callsJ).foldl (init := (([] : List Json), st0)) fun (outs, st) ((c, sni), cj) =>
      let st := { st with w := { st.w with events := [] } }
      let isView := match c with | .code _ => true | .symbol _ => true | _ => false
      let (o, st', view) :=
        if isView then stepView db c (parseStack cj st.nss.length) st
        else let r := step pyUniv db c st; (r.1, r.2, r.2.nss)
      let out := Json.mkObj [
        ("result", outcomeJ o),
        ("after", nsJ st'.w st'.nss),
        ("events", Json.arr (st'.w.events.map eventJ).toArray),
        ("failed", Json.arr (st'.failed.map fun i => Json.arr #[dotJ i.fullname, dotJ i.importAs]).toArray),
        ("attempted", attemptedJ st'.attempted),
        ("reg", regJ st'.w),
        ("sni_after", Json.arr (sni.map fun d => Json.bool (symbolNeedsImport pyUniv st'.w view d)).toArray)]
      (outs ++ [out], st')
    pure (Json.mkObj [("ns0", ns0), ("reg0", reg0), ("calls", Json.arr outs.toArray), ("db_keyed", Json.bool (dbKeyed db))])
  | _ => throw s!"unknown op {op}"

end Pfb.AutoImp.Drv
