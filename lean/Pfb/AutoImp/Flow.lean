/-
  Pfb.AutoImp.Flow — the functions of the model are traces (`Reach`) whose import attempts
  are the "chosen" ones; facts about prefixes, the database lookup and `symbol_needs_import`.
-/
import Pfb.AutoImp.Lemmas
namespace Pfb.AutoImp

variable {W : Type}

/-! ### prefixes and the database lookup -/

theorem prefixes_ne_nil {d p : Dotted} (h : p ∈ prefixes d) : p ≠ [] := by
  induction d generalizing p with
  | nil => simp [prefixes] at h
  | cons x xs ih =>
    simp [prefixes] at h
    rcases h with rfl | ⟨q, _, rfl⟩ <;> simp

theorem prefixes_head {d p : Dotted} (h : p ∈ prefixes d) : p.head? = d.head? := by
  cases d with
  | nil => simp [prefixes] at h
  | cons x xs =>
    simp [prefixes] at h
    rcases h with rfl | ⟨q, _, rfl⟩ <;> simp

theorem self_mem_prefixes {d : Dotted} (h : d ≠ []) : d ∈ prefixes d := by
  induction d with
  | nil => exact absurd rfl h
  | cons x xs ih =>
    cases xs with
    | nil => simp [prefixes]
    | cons y ys =>
      have := ih (by simp)
      rw [prefixes]
      exact List.mem_cons_of_mem _ (List.mem_map.2 ⟨_, this, rfl⟩)

theorem prefixes_getLast {d : Dotted} (h : d ≠ []) : (prefixes d).getLast? = some d := by
  induction d with
  | nil => exact absurd rfl h
  | cons x xs ih =>
    cases xs with
    | nil => simp [prefixes]
    | cons y ys =>
      have := ih (by simp)
      rw [prefixes]
      have hne : (prefixes (y :: ys)).map (x :: ·) ≠ [] := by simp [prefixes]
      rw [List.getLast?_cons_of_ne_nil hne, List.getLast?_map, this]; rfl

/-- every entry is stored under its `import_as` (true of `by_fullname_or_import_as`, checked per case by the driver) -/
def DbKeyed (db : DB) : Prop := ∀ k imps, db.lookup k = some imps → ∀ imp ∈ imps, imp.importAs = k

theorem getKnownImport_some {db : DB} {d : Dotted} {imps : List Import}
    (h : getKnownImport db d = some imps) : ∃ k ∈ prefixes d, db.lookup k = some imps := by
  unfold getKnownImport at h
  obtain ⟨k, hk, hl⟩ := List.exists_of_findSome?_eq_some h
  exact ⟨k, by simpa using hk, hl⟩

theorem getKnownImport_none {db : DB} {d : Dotted} (h : getKnownImport db d = none) :
    ∀ k ∈ prefixes d, db.lookup k = none := by
  unfold getKnownImport at h
  intro k hk
  have := List.findSome?_eq_none_iff.1 h k (by simpa using hk)
  exact this

theorem name0_plain (p : Dotted) : name0 ⟨p, p⟩ = p.headD [] := rfl

theorem head?_headD {p : Dotted} (h : p ≠ []) : p.head? = some (p.headD []) := by
  cases p with
  | nil => exact absurd rfl h
  | cons a as => rfl

/-! ### symbol_needs_import -/

section
variable (U : Univ W)

/-- the head of the dotted name is bound in some namespace -/
def HeadBound (nss : List NS) (d : Dotted) : Prop :=
  ∃ h, d.head? = some h ∧ ∃ ns ∈ nss, (ns.lookup h).isSome

theorem sni_false_iff (w : W) (nss : List NS) (d : Dotted) :
    symbolNeedsImport U w nss d = false ↔ ∃ ns ∈ nss, settles U w d ns = true := by
  simp [symbolNeedsImport, List.any_eq_true]

theorem sni_true_iff (w : W) (nss : List NS) (d : Dotted) :
    symbolNeedsImport U w nss d = true ↔ ∀ ns ∈ nss, settles U w d ns = false := by
  simp [symbolNeedsImport]

theorem settles_headBound {w : W} {d : Dotted} {ns : NS} (h : settles U w d ns = true) :
    ∃ hd, d.head? = some hd ∧ (ns.lookup hd).isSome := by
  cases d with
  | nil => simp [settles] at h
  | cons hd rest =>
    refine ⟨hd, rfl, ?_⟩
    simp only [settles] at h
    cases hl : ns.lookup hd with
    | none => simp [hl] at h
    | some v => simp

theorem not_sni_headBound {w : W} {nss : List NS} {d : Dotted}
    (h : symbolNeedsImport U w nss d = false) : HeadBound nss d := by
  obtain ⟨ns, hns, hs⟩ := (sni_false_iff U w nss d).1 h
  obtain ⟨hd, h1, h2⟩ := settles_headBound U hs
  exact ⟨hd, h1, ns, hns, h2⟩

theorem HeadBound.mono {nss nss' : List NS} {d : Dotted} (hf : Frame nss nss') (h : HeadBound nss d) :
    HeadBound nss' d := by
  obtain ⟨hd, h1, ns, hns, h2⟩ := h
  obtain ⟨i, hi, rfl⟩ := mem_getNs hns
  refine ⟨hd, h1, getNs nss' i, getNs_mem (by rw [← hf.1]; exact hi), ?_⟩
  cases hl : (getNs nss i).lookup hd with
  | none => simp [hl] at h2
  | some v => simp [hf.2 i hd v hl]

/-- a bound single name never needs import -/
theorem settles_single {w : W} {h : Name} {ns : NS} {v : Obj} (hl : ns.lookup h = some v) :
    settles U w [h] ns = true := by
  simp [settles, hl, walk]

/-- if a namespace binds the head and the name still needs import, the name is dotted and the
    binding is the module registered under the head -/
theorem sni_true_bound {w : W} {nss : List NS} {h : Name} {rest : List Name} {ns : NS} {v : Obj}
    (hs : symbolNeedsImport U w nss (h :: rest) = true) (hns : ns ∈ nss) (hl : ns.lookup h = some v) :
    rest ≠ [] ∧ U.modOf w [h] = some v := by
  have := (sni_true_iff U w nss (h :: rest)).1 hs ns hns
  simp only [settles, hl] at this
  cases rest with
  | nil => simp [walk] at this
  | cons x xs =>
    refine ⟨by simp, ?_⟩
    simp only [walk] at this
    by_cases hm : U.modOf w [h] = some v
    · exact hm
    · simp [hm] at this

end

/-! ### the functions are traces -/

section
variable (U : Univ W)

/-- which import statements `auto_import_symbol(d)` may execute, and when: into the last namespace
    (`n`), only while the bound name still needs import, and only the unique database entry of the
    deepest known prefix or `import p` for a prefix `p` of `d` whose module exists. -/
def Chosen (db : DB) (d : Dotted) (n : Nat) (s : State W) (imp : Import) (tgt : Nat) (loop : Bool) : Prop :=
  tgt = n ∧ (∃ w0, symbolNeedsImport U w0 s.nss imp.importAs = true) ∧
  ((loop = false ∧ getKnownImport db d = some [imp]) ∨
   (loop = true ∧ ∃ p ∈ prefixes d, imp = ⟨p, p⟩ ∧ ∃ w, (U.exists_ w p).1 = true))

/-- one iteration of the ancestor loop, as an equation with small terms -/
theorem ancestorLoop_cons (tgt : Nat) (p : Dotted) (ps : List Dotted) (st : State W) :
    ancestorLoop U tgt (p :: ps) st =
      if symbolNeedsImport U st.w st.nss p = false then ancestorLoop U tgt ps st
      else if st.attempted.lookup p = some false then (false, st)
      else if (U.exists_ st.w p).1 = false then (false, (st.withW (U.exists_ st.w p).2).withAtt p false)
      else if (tryImport U ⟨p, p⟩ tgt true (st.withW (U.exists_ st.w p).2)).1 = false then
        (false, (tryImport U ⟨p, p⟩ tgt true (st.withW (U.exists_ st.w p).2)).2.withAtt p false)
      else ancestorLoop U tgt ps ((tryImport U ⟨p, p⟩ tgt true (st.withW (U.exists_ st.w p).2)).2.withAtt p true) := by
  rw [ancestorLoop]
  simp only []
  by_cases h1 : symbolNeedsImport U st.w st.nss p = false
  · simp [h1]
  · have h1' : symbolNeedsImport U st.w st.nss p = true := by simpa using h1
    simp only [h1', Bool.not_true, Bool.false_eq_true, if_false]
    by_cases h2 : st.attempted.lookup p = some false
    · simp [h2]
    · have h2' : (st.attempted.lookup p == some false) = false := by simpa using h2
      simp only [h2', h2, Bool.false_eq_true, if_false]
      by_cases h3 : (U.exists_ st.w p).1 = false
      · simp [h3]
      · have h3' : (U.exists_ st.w p).1 = true := by simpa using h3
        simp only [h3', Bool.not_true, Bool.false_eq_true, if_false]
        by_cases h4 : (tryImport U ⟨p, p⟩ tgt true (st.withW (U.exists_ st.w p).2)).1 = false
        · simp [h4]
        · have h4' : (tryImport U ⟨p, p⟩ tgt true (st.withW (U.exists_ st.w p).2)).1 = true := by simpa using h4
          simp [h4']

theorem reach_ancestorLoop (P : State W → Import → Nat → Bool → Prop) (tgt : Nat) (ps : List Dotted) (st : State W)
    (hP : ∀ p ∈ ps, ∀ s : State W, (∃ w0, symbolNeedsImport U w0 s.nss p = true) →
      (∃ w, (U.exists_ w p).1 = true) → P s ⟨p, p⟩ tgt true) :
    Reach U P st (ancestorLoop U tgt ps st).2 := by
  induction ps generalizing st with
  | nil => exact .refl _
  | cons p ps ih =>
    have ih' := fun st => ih st (fun q hq => hP q (List.mem_cons_of_mem _ hq))
    rw [ancestorLoop_cons]
    split
    · exact ih' st
    · rename_i hs
      split
      · exact .refl _
      · have h1 : Reach U P st (st.withW (U.exists_ st.w p).2) := .doExists p (.refl _)
        split
        · exact h1.withAtt _ _
        · rename_i hex
          have hs' : symbolNeedsImport U st.w st.nss p = true := by simpa using hs
          have hex' : (U.exists_ st.w p).1 = true := by simpa using hex
          have h2 := Reach.tryImp (U := U) (P := P) ⟨p, p⟩ tgt true h1
            (hP p List.mem_cons_self _ ⟨st.w, hs'⟩ ⟨st.w, hex'⟩)
          split
          · exact h2.withAtt _ _
          · exact (h2.withAtt _ _).trans (ih' _)

theorem reach_ancestorLoop_chosen (db : DB) (d : Dotted) (n : Nat) (st : State W) :
    Reach U (Chosen U db d n) st (ancestorLoop U n (prefixes d) st).2 :=
  reach_ancestorLoop U _ n _ st (fun p hp _ hs hex => ⟨rfl, hs, Or.inr ⟨rfl, p, hp, rfl, hex⟩⟩)

/-- the branches of `auto_import_symbol`, as an equation with small terms -/
theorem autoImportSymbol_eq (db : DB) (viaStr : Bool) (d : Dotted) (st : State W) :
    autoImportSymbol U db viaStr d st =
      if symbolNeedsImport U st.w st.nss d = false then (.ok true, st)
      else if (st.attempted.lookup d).isSome then (.ok false, st)
      else match getKnownImport db d with
        | none => (.ok (ancestorLoop U (st.nss.length - 1) (prefixes d) st).1,
                   (ancestorLoop U (st.nss.length - 1) (prefixes d) st).2)
        | some [] => (.assertion, st)
        | some [imp] =>
          if symbolNeedsImport U st.w st.nss imp.importAs = false then
            (.ok (ancestorLoop U (st.nss.length - 1) (prefixes d) st).1,
             (ancestorLoop U (st.nss.length - 1) (prefixes d) st).2)
          else if (tryImport U imp (st.nss.length - 1) false st).1 = false then
            (.ok false, (tryImport U imp (st.nss.length - 1) false st).2.withAtt d false)
          else if (viaStr && imp.importAs == d) = true ∨ imp.importAs ≠ imp.fullname then
            (.ok true, (tryImport U imp (st.nss.length - 1) false st).2.withAtt imp.importAs true)
          else
            (.ok (ancestorLoop U (st.nss.length - 1) (prefixes d)
                    ((tryImport U imp (st.nss.length - 1) false st).2.withAtt imp.importAs true)).1,
             (ancestorLoop U (st.nss.length - 1) (prefixes d)
                    ((tryImport U imp (st.nss.length - 1) false st).2.withAtt imp.importAs true)).2)
        | some (_ :: _ :: _) => (.ok false, st.withAtt d false) := by
  rw [autoImportSymbol]
  simp only []
  by_cases h1 : symbolNeedsImport U st.w st.nss d = false
  · simp [h1]
  · have h1' : symbolNeedsImport U st.w st.nss d = true := by simpa using h1
    simp only [h1', Bool.not_true, Bool.false_eq_true, if_false]
    by_cases h2 : (st.attempted.lookup d).isSome
    · simp [h2]
    · simp only [h2, Bool.false_eq_true, if_false]
      cases hk : getKnownImport db d with
      | none => rfl
      | some imps =>
        cases imps with
        | nil => rfl
        | cons imp rest =>
          cases rest with
          | cons _ _ => rfl
          | nil =>
            simp only []
            by_cases h3 : symbolNeedsImport U st.w st.nss imp.importAs = false
            · simp [h3]
            · have h3' : symbolNeedsImport U st.w st.nss imp.importAs = true := by simpa using h3
              simp only [h3', if_true, Bool.true_eq_false, if_false]
              by_cases h4 : (tryImport U imp (st.nss.length - 1) false st).1 = false
              · simp [h4]
              · have h4' : (tryImport U imp (st.nss.length - 1) false st).1 = true := by simpa using h4
                simp only [h4', Bool.not_true, Bool.false_eq_true, if_false, Bool.true_eq_false]
                by_cases h5 : (viaStr && imp.importAs == d) = true
                · simp [h5]
                · simp only [h5, Bool.false_eq_true, if_false, false_or]
                  by_cases h6 : imp.importAs = imp.fullname
                  · simp [h6]
                  · simp [h6]

theorem reach_autoImportSymbol (db : DB) (viaStr : Bool) (d : Dotted) (st : State W) :
    Reach U (Chosen U db d (st.nss.length - 1)) st (autoImportSymbol U db viaStr d st).2 := by
  rw [autoImportSymbol_eq]
  split
  · exact .refl _
  · split
    · exact .refl _
    · split
      · exact reach_ancestorLoop_chosen U db d _ st
      · exact .refl _
      · rename_i imp hk
        split
        · exact reach_ancestorLoop_chosen U db d _ st
        · rename_i hs
          have hs' : symbolNeedsImport U st.w st.nss imp.importAs = true := by simpa using hs
          have h1 := Reach.tryImp (U := U) (P := Chosen U db d (st.nss.length - 1)) imp (st.nss.length - 1) false
            (.refl st) ⟨rfl, ⟨st.w, hs'⟩, Or.inl ⟨rfl, hk⟩⟩
          split
          · exact h1.withAtt _ _
          · split
            · exact h1.withAtt _ _
            · exact (h1.withAtt _ _).trans (reach_ancestorLoop_chosen U db d _ _)
      · exact (Reach.refl st).withAtt _ _

theorem reach_foldSyms (db : DB) (ds : List Dotted) (acc : Bool) (st : State W) :
    Reach U (fun s i t l => ∃ d ∈ ds, Chosen U db d (st.nss.length - 1) s i t l) st (foldSyms U db ds acc st).2 := by
  induction ds generalizing acc st with
  | nil => exact .refl _
  | cons d ds ih =>
    have h1 : Reach U (fun s i t l => ∃ d' ∈ d :: ds, Chosen U db d' (st.nss.length - 1) s i t l) st
        (autoImportSymbol U db false d st).2 :=
      (reach_autoImportSymbol U db false d st).mono (fun s i t l h => ⟨d, List.mem_cons_self, h⟩)
    unfold foldSyms
    split
    · rename_i st' heq
      rw [show st' = (autoImportSymbol U db false d st).2 by rw [heq]]
      exact h1
    · rename_i b st' heq
      have hst' : st' = (autoImportSymbol U db false d st).2 := by rw [heq]
      have hlen : st'.nss.length = st.nss.length := by rw [hst']; exact h1.length
      have h2 := ih (acc && b) st'
      rw [hlen] at h2
      rw [hst'] at h2 ⊢
      exact h1.trans (h2.mono (fun s i t l ⟨d', hd', hc⟩ => ⟨d', List.mem_cons_of_mem _ hd', hc⟩))

/-- which import statements one call may execute -/
def CallAllows (db : DB) (n : Nat) (c : Call) (s : State W) (imp : Import) (tgt : Nat) (loop : Bool) : Prop :=
  match c with
  | .code (some ds) => ∃ d ∈ ds, Chosen U db d n s imp tgt loop
  | .code none => False
  | .symbol d => Chosen U db d n s imp tgt loop
  | .tryImp i ns => imp = i ∧ tgt = ns ∧ loop = false
  | .newCell => False

theorem reach_step (db : DB) (c : Call) (st : State W) :
    Reach U (CallAllows U db (st.nss.length - 1) c) st (step U db c st).2 := by
  cases c with
  | code m =>
    cases m with
    | none => exact .refl _
    | some ds => exact reach_foldSyms U db ds true st
  | symbol d => exact reach_autoImportSymbol U db true d st
  | tryImp imp i => exact .tryImp imp i false (.refl _) ⟨rfl, rfl, rfl⟩
  | newCell => exact .setAtt _ (.refl _)

theorem reach_run (db : DB) (cs : List Call) (st : State W) :
    Reach U (fun s i t l => ∃ c ∈ cs, CallAllows U db (st.nss.length - 1) c s i t l) st (run U db cs st).2 := by
  induction cs generalizing st with
  | nil => exact .refl _
  | cons c cs ih =>
    have h1 : Reach U (fun s i t l => ∃ c' ∈ c :: cs, CallAllows U db (st.nss.length - 1) c' s i t l) st (step U db c st).2 :=
      (reach_step U db c st).mono (fun s i t l h => ⟨c, List.mem_cons_self, h⟩)
    have h2 := ih (step U db c st).2
    rw [h1.length] at h2
    exact h1.trans (h2.mono (fun s i t l ⟨c', hc', h⟩ => ⟨c', List.mem_cons_of_mem _ hc', h⟩))

end

end Pfb.AutoImp
