/-
  Pfb.AutoImp.Lemmas — invariants of the auto-import state machine, for an ARBITRARY
  import universe `U`.  The state is only ever changed through `tryImport`, updates of the
  attempt map and updates of the world; `Reach` records that as a trace, and the frame /
  origin / failure invariants are proved once by induction over the trace.
-/
import Pfb.AutoImp.Model
namespace Pfb.AutoImp

variable {W : Type}

/-! ### namespaces -/

/-- every binding of `a` is a binding of `b`, with the same object -/
def NS.Sub (a b : NS) : Prop := ∀ k v, a.lookup k = some v → b.lookup k = some v

theorem NS.Sub.refl (a : NS) : NS.Sub a a := fun _ _ h => h

theorem NS.Sub.trans {a b c : NS} (h1 : NS.Sub a b) (h2 : NS.Sub b c) : NS.Sub a c :=
  fun k v h => h2 k v (h1 k v h)

theorem NS.sub_append (a : NS) (e : Name × Obj) : NS.Sub a (a ++ [e]) := by
  intro k v h
  simp [List.lookup_append, h]

/-- nothing deleted, nothing rebound, in every namespace of the stack -/
def Frame (xs ys : List NS) : Prop :=
  xs.length = ys.length ∧ ∀ i, NS.Sub (getNs xs i) (getNs ys i)

theorem Frame.refl (xs : List NS) : Frame xs xs := ⟨rfl, fun _ => NS.Sub.refl _⟩

theorem Frame.trans {a b c : List NS} (h1 : Frame a b) (h2 : Frame b c) : Frame a c :=
  ⟨h1.1.trans h2.1, fun i => (h1.2 i).trans (h2.2 i)⟩

@[simp] theorem addAt_length (nss : List NS) (i : Nat) (k : Name) (v : Obj) :
    (addAt nss i k v).length = nss.length := by
  induction nss generalizing i with
  | nil => simp [addAt]
  | cons ns rest ih => cases i <;> simp [addAt, ih]

theorem getNs_addAt_ne (nss : List NS) (i j : Nat) (k : Name) (v : Obj) (h : j ≠ i) :
    getNs (addAt nss i k v) j = getNs nss j := by
  induction nss generalizing i j with
  | nil => simp [addAt]
  | cons ns rest ih =>
    cases i with
    | zero =>
      cases j with
      | zero => exact absurd rfl h
      | succ j => simp [addAt, getNs]
    | succ i =>
      cases j with
      | zero => simp [addAt, getNs]
      | succ j =>
        have := ih i j (by omega)
        simpa [addAt, getNs] using this

theorem getNs_addAt_eq (nss : List NS) (i : Nat) (k : Name) (v : Obj) (h : i < nss.length) :
    getNs (addAt nss i k v) i = getNs nss i ++ [(k, v)] := by
  induction nss generalizing i with
  | nil => simp at h
  | cons ns rest ih =>
    cases i with
    | zero => simp [addAt, getNs]
    | succ i =>
      have := ih i (by simpa using h)
      simpa [addAt, getNs] using this

theorem addAt_of_ge (nss : List NS) (i : Nat) (k : Name) (v : Obj) (h : nss.length ≤ i) :
    addAt nss i k v = nss := by
  induction nss generalizing i with
  | nil => simp [addAt]
  | cons ns rest ih =>
    cases i with
    | zero => simp at h
    | succ i => simp [addAt, ih i (by simpa using h)]

theorem frame_addAt (nss : List NS) (i : Nat) (k : Name) (v : Obj) : Frame nss (addAt nss i k v) := by
  refine ⟨by simp, fun j => ?_⟩
  by_cases hj : j = i
  · subst hj
    by_cases hl : j < nss.length
    · rw [getNs_addAt_eq _ _ _ _ hl]; exact NS.sub_append _ _
    · rw [addAt_of_ge _ _ _ _ (by omega)]; exact NS.Sub.refl _
  · rw [getNs_addAt_ne _ _ _ _ _ hj]; exact NS.Sub.refl _

theorem getNs_mem {nss : List NS} {i : Nat} (h : i < nss.length) : getNs nss i ∈ nss := by
  have : getNs nss i = nss[i] := by simp [getNs, List.getD, h]
  rw [this]
  exact List.getElem_mem h

theorem mem_getNs {nss : List NS} {ns : NS} (h : ns ∈ nss) : ∃ i, i < nss.length ∧ getNs nss i = ns := by
  obtain ⟨i, hi, rfl⟩ := List.getElem_of_mem h
  exact ⟨i, hi, by simp [getNs, List.getD, hi]⟩

/-! ### tryImport -/

section
variable (U : Univ W)

/-- the attempt `r` failed: it raised, or what it yielded differs from the existing binding of `name0` -/
def Rec.Failed (r : Rec) : Prop :=
  r.res = none ∨ ∃ v pre, r.res = some v ∧ (getNs r.before r.tgt).lookup (name0 r.imp) = some pre ∧ pre ≠ v

/-- facts about one record, relative to the state it was executed in -/
structure RecOK (st : State W) (imp : Import) (tgt : Nat) (loop : Bool) (r : Rec) : Prop where
  imp_eq : r.imp = imp
  tgt_eq : r.tgt = tgt
  loop_eq : r.loop = loop
  res_eq : r.res = (U.exec st.w imp).1
  before_eq : r.before = st.nss
  not_failed : imp ∉ st.failed
  failed_same : r.Failed → r.after = r.before
  added : ¬ r.Failed → ∀ v, r.res = some v →
    ((getNs r.before tgt).lookup (name0 imp) = none ∧ r.after = addAt r.before tgt (name0 imp) v)
    ∨ ((getNs r.before tgt).lookup (name0 imp) = some v ∧ r.after = r.before)

/-- everything `_try_import` does, in one statement -/
theorem tryImport_spec (imp : Import) (tgt : Nat) (loop : Bool) (st : State W) :
    let r := tryImport U imp tgt loop st
    (r.2.attempted = st.attempted) ∧
    ((imp ∈ st.failed ∧ r = (false, st)) ∨
     (∃ rc : Rec, RecOK U st imp tgt loop rc ∧ r.2.log = st.log ++ [rc] ∧ r.2.nss = rc.after ∧
        r.2.w = (U.exec st.w imp).2 ∧
        (r.1 = true ↔ ¬ rc.Failed) ∧
        (rc.res = none → r.2.failed = imp :: st.failed) ∧ (rc.res ≠ none → r.2.failed = st.failed))) := by
  intro r
  by_cases hf : imp ∈ st.failed
  · have : r = (false, st) := by simp [r, tryImport, hf]
    rw [this]; exact ⟨rfl, Or.inl ⟨hf, rfl⟩⟩
  · cases hres : (U.exec st.w imp).1 with
    | none =>
      have hr : r = (false, { st with w := (U.exec st.w imp).2, failed := imp :: st.failed, log := st.log ++ [⟨imp, none, tgt, loop, st.nss, st.nss⟩] }) := by
        simp [r, tryImport, hf, hres]
      rw [hr]
      refine ⟨rfl, Or.inr ⟨⟨imp, none, tgt, loop, st.nss, st.nss⟩, ?_, rfl, rfl, rfl, ?_, ?_, ?_⟩⟩
      · exact ⟨rfl, rfl, rfl, hres.symm, rfl, hf, fun _ => rfl, fun h => absurd (Or.inl rfl) h⟩
      · simp [Rec.Failed]
      · intro _; rfl
      · intro h; exact absurd rfl h
    | some imported =>
      cases hpre : (getNs st.nss tgt).lookup (name0 imp) with
      | none =>
        have hr : r = (true, { st with w := (U.exec st.w imp).2, nss := addAt st.nss tgt (name0 imp) imported, log := st.log ++ [⟨imp, some imported, tgt, loop, st.nss, addAt st.nss tgt (name0 imp) imported⟩] }) := by
          simp [r, tryImport, hf, hres, hpre]
        rw [hr]
        have hnf : ¬ Rec.Failed ⟨imp, some imported, tgt, loop, st.nss, addAt st.nss tgt (name0 imp) imported⟩ := by
          rintro (h | ⟨v, pre, _, h2, _⟩)
          · simp at h
          · simp [hpre] at h2
        refine ⟨rfl, Or.inr ⟨_, ?_, rfl, rfl, rfl, ?_, ?_, ?_⟩⟩
        · refine ⟨rfl, rfl, rfl, hres.symm, rfl, hf, fun h => absurd h hnf, ?_⟩
          intro _ v hv
          simp at hv; subst hv
          exact Or.inl ⟨hpre, rfl⟩
        · simp [hnf]
        · intro h; simp at h
        · intro _; rfl
      | some pre =>
        have hr : r = (pre == imported, { st with w := (U.exec st.w imp).2, log := st.log ++ [⟨imp, some imported, tgt, loop, st.nss, st.nss⟩] }) := by
          simp [r, tryImport, hf, hres, hpre]
        rw [hr]
        refine ⟨rfl, Or.inr ⟨⟨imp, some imported, tgt, loop, st.nss, st.nss⟩, ?_, rfl, rfl, rfl, ?_, ?_, ?_⟩⟩
        · refine ⟨rfl, rfl, rfl, hres.symm, rfl, hf, fun _ => rfl, ?_⟩
          intro hnf v hv
          simp at hv; subst hv
          refine Or.inr ⟨?_, rfl⟩
          by_cases he : pre = imported
          · subst he; exact hpre
          · exact absurd (Or.inr ⟨imported, pre, rfl, hpre, he⟩) hnf
        · constructor
          · intro h
            have : pre = imported := by simpa using h
            subst this
            rintro (h | ⟨v, p, h1, h2, h3⟩)
            · simp at h
            · simp at h1; subst h1
              simp [hpre] at h2; exact h3 h2.symm
          · intro hnf
            by_cases he : pre = imported
            · simp [he]
            · exact absurd (Or.inr ⟨imported, pre, rfl, hpre, he⟩) hnf
        · intro h; simp at h
        · intro _; rfl

end

/-! ### traces -/

/-- `st'` is reached from `st` by import attempts allowed by `P` (state at the attempt, import, target
    index, loop flag), updates of the attempt map and evaluations of `exists`. -/
inductive Reach (U : Univ W) (P : State W → Import → Nat → Bool → Prop) : State W → State W → Prop
  | refl (st : State W) : Reach U P st st
  | tryImp {st st1 : State W} (imp : Import) (tgt : Nat) (loop : Bool) :
      Reach U P st st1 → P st1 imp tgt loop → Reach U P st (tryImport U imp tgt loop st1).2
  | setAtt {st st1 : State W} (a : List (Dotted × Bool)) :
      Reach U P st st1 → Reach U P st { st1 with attempted := a }
  | doExists {st st1 : State W} (p : Dotted) :
      Reach U P st st1 → Reach U P st (st1.withW (U.exists_ st1.w p).2)

namespace Reach
variable {U : Univ W} {P Q : State W → Import → Nat → Bool → Prop}

theorem trans {a b c : State W} (h1 : Reach U P a b) (h2 : Reach U P b c) : Reach U P a c := by
  induction h2 with
  | refl => exact h1
  | tryImp imp tgt loop _ hp ih => exact .tryImp imp tgt loop ih hp
  | setAtt a _ ih => exact .setAtt a ih
  | doExists p _ ih => exact .doExists p ih

theorem withAtt {a b : State W} (h : Reach U P a b) (k : Dotted) (v : Bool) : Reach U P a (b.withAtt k v) :=
  .setAtt _ h

theorem mono (hpq : ∀ s i t l, P s i t l → Q s i t l) {a b : State W} (h : Reach U P a b) : Reach U Q a b := by
  induction h with
  | refl => exact .refl _
  | tryImp imp tgt loop _ hp ih => exact .tryImp imp tgt loop ih (hpq _ _ _ _ hp)
  | setAtt a _ ih => exact .setAtt a ih
  | doExists p _ ih => exact .doExists p ih

/-- the new part of the log, with the facts about every record -/
structure LogExt (U : Univ W) (P : State W → Import → Nat → Bool → Prop) (a b : State W) (new : List Rec) : Prop where
  log_eq : b.log = a.log ++ new
  /-- every record was executed in a state `s` in which `P` allowed it; it records that state's
      namespaces and what the statement yielded there -/
  allowed : ∀ r ∈ new, ∃ s : State W, P s r.imp r.tgt r.loop ∧ s.nss = r.before ∧
    r.res = (U.exec s.w r.imp).1 ∧ Frame a.nss s.nss
  failed_same : ∀ r ∈ new, r.Failed → r.after = r.before
  frame : ∀ r ∈ new, Frame r.before r.after
  not_failed : ∀ r ∈ new, r.imp ∉ a.failed
  raised_failed : ∀ r ∈ new, r.res = none → r.imp ∈ b.failed
  /-- a raising import is not executed again later in the trace -/
  no_retry : new.Pairwise (fun r1 r2 => r1.res = none → r2.imp ≠ r1.imp)
  /-- every binding that appears was put there by a record -/
  origin : ∀ i k v, (getNs b.nss i).lookup k = some v → (getNs a.nss i).lookup k = none →
    ∃ r ∈ new, r.tgt = i ∧ name0 r.imp = k ∧ r.res = some v ∧ ¬ r.Failed ∧ (getNs r.before i).lookup k = none

theorem invariants {a b : State W} (h : Reach U P a b) :
    Frame a.nss b.nss ∧ (∀ i ∈ a.failed, i ∈ b.failed) ∧ ∃ new, LogExt U P a b new := by
  induction h with
  | refl => exact ⟨Frame.refl _, fun _ h => h, [], by simp, by simp, by simp, by simp, by simp, by simp, by simp,
      fun i k v h1 h2 => by simp [h1] at h2⟩
  | setAtt att _ ih =>
    obtain ⟨hf, hfl, new, hl⟩ := ih
    exact ⟨hf, hfl, new, ⟨hl.log_eq, hl.allowed, hl.failed_same, hl.frame, hl.not_failed, hl.raised_failed, hl.no_retry, hl.origin⟩⟩
  | doExists p _ ih =>
    obtain ⟨hf, hfl, new, hl⟩ := ih
    exact ⟨hf, hfl, new, ⟨hl.log_eq, hl.allowed, hl.failed_same, hl.frame, hl.not_failed, hl.raised_failed, hl.no_retry, hl.origin⟩⟩
  | @tryImp st1 imp tgt loop _ hp ih =>
    obtain ⟨hf, hfl, new, hl⟩ := ih
    have hs := tryImport_spec U imp tgt loop st1
    obtain ⟨_, hs⟩ := hs
    rcases hs with ⟨_, heq⟩ | ⟨rc, hok, hlog, hnss, _, _, hfail1, hfail2⟩
    · rw [heq]
      exact ⟨hf, hfl, new, hl⟩
    · -- facts about the new record
      have hfr : Frame rc.before rc.after := by
        by_cases hF : rc.Failed
        · rw [hok.failed_same hF]; exact Frame.refl _
        · cases hres : rc.res with
          | none => exact absurd (Or.inl hres) hF
          | some v =>
            rcases hok.added hF v hres with ⟨_, h2⟩ | ⟨_, h2⟩
            · rw [h2]; exact frame_addAt _ _ _ _
            · rw [h2]; exact Frame.refl _
      have hfailed' : ∀ i ∈ st1.failed, i ∈ (tryImport U imp tgt loop st1).2.failed := by
        intro i hi
        cases hres : rc.res with
        | none => rw [hfail1 hres]; exact List.mem_cons_of_mem _ hi
        | some v => rw [hfail2 (by simp [hres])]; exact hi
      refine ⟨?_, fun i hi => hfailed' i (hfl i hi), new ++ [rc], ?_⟩
      · rw [hnss]; rw [hok.before_eq] at hfr; exact hf.trans hfr
      · refine ⟨by rw [hlog, hl.log_eq, List.append_assoc], ?_, ?_, ?_, ?_, ?_, ?_, ?_⟩
        · intro r hr
          rcases List.mem_append.1 hr with h | h
          · exact hl.allowed r h
          · simp at h; subst h; rw [hok.imp_eq, hok.tgt_eq, hok.loop_eq]
            exact ⟨st1, hp, hok.before_eq.symm, hok.res_eq, hf⟩
        · intro r hr
          rcases List.mem_append.1 hr with h | h
          · exact hl.failed_same r h
          · simp at h; subst h; exact hok.failed_same
        · intro r hr
          rcases List.mem_append.1 hr with h | h
          · exact hl.frame r h
          · simp at h; subst h; exact hfr
        · intro r hr
          rcases List.mem_append.1 hr with h | h
          · exact hl.not_failed r h
          · simp at h; subst h
            rw [hok.imp_eq]
            exact fun hin => hok.not_failed (hfl _ hin)
        · intro r hr hres
          rcases List.mem_append.1 hr with h | h
          · exact hfailed' _ (hl.raised_failed r h hres)
          · simp at h; subst h
            rw [hfail1 hres, hok.imp_eq]; exact List.mem_cons_self
        · rw [List.pairwise_append]
          refine ⟨hl.no_retry, by simp, ?_⟩
          intro r1 h1 r2 h2 hres heq
          simp at h2; subst h2
          have : r1.imp ∈ st1.failed := hl.raised_failed r1 h1 hres
          rw [← heq, hok.imp_eq] at this
          exact hok.not_failed this
        · intro i k v hb ha
          rw [hnss] at hb
          by_cases hold : (getNs st1.nss i).lookup k = some v
          · obtain ⟨r, hr, h⟩ := hl.origin i k v hold ha
            exact ⟨r, List.mem_append_left _ hr, h⟩
          · -- the binding is new in this very step
            have hF : ¬ rc.Failed := by
              intro hF
              rw [hok.failed_same hF, hok.before_eq] at hb
              exact hold hb
            cases hres : rc.res with
            | none => exact absurd (Or.inl hres) hF
            | some v' =>
              rcases hok.added hF v' hres with ⟨hnone, h2⟩ | ⟨_, h2⟩
              · rw [h2, hok.before_eq] at hb
                by_cases hi : i = tgt
                · subst hi
                  by_cases hlen : i < st1.nss.length
                  · rw [getNs_addAt_eq _ _ _ _ hlen, List.lookup_append] at hb
                    cases hlk : (getNs st1.nss i).lookup k with
                    | some x => rw [hlk] at hb; simp at hb; rw [hb] at hlk; exact absurd hlk hold
                    | none =>
                      rw [hlk] at hb
                      simp [List.lookup_cons] at hb
                      by_cases hk : k = name0 imp
                      · subst hk
                        simp at hb; subst hb
                        refine ⟨rc, by simp, hok.tgt_eq, by rw [hok.imp_eq], hres, hF, ?_⟩
                        rw [hok.before_eq]; exact hlk
                      · have : (k == name0 imp) = false := by simpa using hk
                        simp [this] at hb
                  · rw [addAt_of_ge _ _ _ _ (by omega)] at hb
                    exact absurd hb hold
                · rw [getNs_addAt_ne _ _ _ _ _ hi] at hb
                  exact absurd hb hold
              · rw [h2, hok.before_eq] at hb
                exact absurd hb hold

theorem frame {a b : State W} (h : Reach U P a b) : Frame a.nss b.nss := (invariants h).1

theorem length {a b : State W} (h : Reach U P a b) : b.nss.length = a.nss.length := (invariants h).1.1.symm

theorem failed_mono {a b : State W} (h : Reach U P a b) : ∀ i ∈ a.failed, i ∈ b.failed := (invariants h).2.1

theorem logExt {a b : State W} (h : Reach U P a b) : ∃ new, LogExt U P a b new := (invariants h).2.2

end Reach

end Pfb.AutoImp
