/-
  Pfb.AutoImp.PySound — the concrete CPython-universe model `pyUniv` satisfies `Sound`
  (the hypotheses of `C07_success_resolves`) for universes whose modules have no side effects
  on other modules and no member named like one of their submodules.  (Universes WITH such
  effects are exercised by the correspondence check; they violate `Sound` on purpose.)
-/
import Pfb.AutoImp.Resolve
import Pfb.AutoImp.PyWorld
namespace Pfb.AutoImp.PyW

/-! ### association-list facts -/

theorem lookup_filter_ne {α β : Type} [BEq α] [LawfulBEq α] (l : List (α × β)) (p q : α) :
    (l.filter (fun e => e.1 != p)).lookup q = if q == p then none else l.lookup q := by
  induction l with
  | nil => simp
  | cons e l ih =>
    obtain ⟨k, v⟩ := e
    by_cases hk : k = p
    · subst hk
      simp only [List.filter_cons, bne_self_eq_false, Bool.false_eq_true, if_false, ih, List.lookup_cons]
      by_cases hq : q = k
      · subst hq; simp
      · have : (q == k) = false := by simpa using hq
        simp [this]
    · have hkp : (k != p) = true := by simpa using hk
      simp only [List.filter_cons, hkp, if_true, List.lookup_cons, ih]
      by_cases hq : q = k
      · subst hq
        have : (q == p) = false := by simpa using hk
        simp [this]
      · have : (q == k) = false := by simpa using hq
        simp [this]

/-! ### what the primitives do to the four tables -/

@[simp] theorem modOf_emit (w : PyW) (e : Event) (p : Dotted) : (w.emit e).modOf p = w.modOf p := rfl
@[simp] theorem getattr_emit (w : PyW) (e : Event) (o : Obj) (n : Name) : (w.emit e).getattr o n = w.getattr o n := rfl
@[simp] theorem info_emit (w : PyW) (e : Event) : (w.emit e).info = w.info := rfl
@[simp] theorem next_emit (w : PyW) (e : Event) : (w.emit e).next = w.next := rfl
@[simp] theorem spec_emit (w : PyW) (e : Event) : (w.emit e).spec = w.spec := rfl

@[simp] theorem modOf_alloc (w : PyW) (i : Info) (p : Dotted) : (w.alloc i).2.modOf p = w.modOf p := rfl
@[simp] theorem getattr_alloc (w : PyW) (i : Info) (o : Obj) (n : Name) : (w.alloc i).2.getattr o n = w.getattr o n := rfl
@[simp] theorem next_alloc (w : PyW) (i : Info) : (w.alloc i).2.next = w.next + 1 := rfl
@[simp] theorem fst_alloc (w : PyW) (i : Info) : (w.alloc i).1 = w.next := rfl
@[simp] theorem spec_alloc (w : PyW) (i : Info) : (w.alloc i).2.spec = w.spec := rfl
theorem info_alloc (w : PyW) (i : Info) (x : Obj) :
    (w.alloc i).2.info.lookup x = if x = w.next then some i else w.info.lookup x := by
  simp only [alloc, List.lookup_cons]
  by_cases h : x = w.next
  · subst h; simp
  · have : (x == w.next) = false := by simpa using h
    simp [this, h]

@[simp] theorem modOf_setattr (w : PyW) (o : Obj) (n : Name) (v : Obj) (p : Dotted) :
    (w.setattr o n v).modOf p = w.modOf p := rfl
@[simp] theorem info_setattr (w : PyW) (o : Obj) (n : Name) (v : Obj) : (w.setattr o n v).info = w.info := rfl
@[simp] theorem next_setattr (w : PyW) (o : Obj) (n : Name) (v : Obj) : (w.setattr o n v).next = w.next := rfl
@[simp] theorem spec_setattr (w : PyW) (o : Obj) (n : Name) (v : Obj) : (w.setattr o n v).spec = w.spec := rfl
theorem getattr_setattr (w : PyW) (o : Obj) (n : Name) (v : Obj) (o' : Obj) (n' : Name) :
    (w.setattr o n v).getattr o' n' = if o' = o ∧ n' = n then some v else w.getattr o' n' := by
  simp only [setattr, getattr, List.lookup_cons]
  by_cases h : o' = o ∧ n' = n
  · obtain ⟨rfl, rfl⟩ := h; simp
  · have : ((o', n') == (o, n)) = false := by
      simp only [beq_eq_false_iff_ne, ne_eq, Prod.mk.injEq]; exact h
    simp [this, h]

@[simp] theorem getattr_setMod (w : PyW) (p : Dotted) (o : Obj) (x : Obj) (n : Name) :
    (w.setMod p o).getattr x n = w.getattr x n := rfl
@[simp] theorem info_setMod (w : PyW) (p : Dotted) (o : Obj) : (w.setMod p o).info = w.info := rfl
@[simp] theorem next_setMod (w : PyW) (p : Dotted) (o : Obj) : (w.setMod p o).next = w.next := rfl
@[simp] theorem spec_setMod (w : PyW) (p : Dotted) (o : Obj) : (w.setMod p o).spec = w.spec := rfl
theorem modOf_setMod (w : PyW) (p : Dotted) (o : Obj) (q : Dotted) :
    (w.setMod p o).modOf q = if q == p then some o else w.modOf q := by
  simp only [setMod, modOf, List.lookup_cons, lookup_filter_ne]
  by_cases h : q == p <;> simp [h]

@[simp] theorem getattr_delMod (w : PyW) (p : Dotted) (x : Obj) (n : Name) : (w.delMod p).getattr x n = w.getattr x n := rfl
@[simp] theorem info_delMod (w : PyW) (p : Dotted) : (w.delMod p).info = w.info := rfl
@[simp] theorem next_delMod (w : PyW) (p : Dotted) : (w.delMod p).next = w.next := rfl
@[simp] theorem spec_delMod (w : PyW) (p : Dotted) : (w.delMod p).spec = w.spec := rfl
theorem modOf_delMod (w : PyW) (p : Dotted) (q : Dotted) :
    (w.delMod p).modOf q = if q == p then none else w.modOf q := by
  simp only [delMod, modOf, lookup_filter_ne]

theorem findSpec_path {w : PyW} {p : Dotted} {s : ModSpec} (h : w.findSpec p = some s) : s.path = p ∧ s ∈ w.spec := by
  unfold findSpec at h
  have h1 := List.find?_some h
  have h2 := List.mem_of_find?_eq_some h
  exact ⟨by simpa using h1, h2⟩

theorem findSpec_congr {w w' : PyW} (h : w'.spec = w.spec) (p : Dotted) : w'.findSpec p = w.findSpec p := by
  simp [findSpec, h]

theorem isPkg_congr {w w' : PyW} {o : Obj} (h : w'.info.lookup o = w.info.lookup o) : w'.isPkg o = w.isPkg o := by
  simp [isPkg, h]

/-! ### the universes covered, the invariant, the extension relation -/

structure SpecOK (spec : List ModSpec) : Prop where
  no_effects : ∀ s ∈ spec, s.effects = []
  members_not_children : ∀ s ∈ spec, ∀ m ∈ s.members, ∀ s' ∈ spec, s'.path ≠ s.path ++ [m]

/-- well-formed worlds -/
structure Inv (spec : List ModSpec) (w : PyW) : Prop where
  spec_eq : w.spec = spec
  info_lt : ∀ x i, w.info.lookup x = some i → x < w.next
  mods_lt : ∀ p o, w.modOf p = some o → o < w.next
  attrs_lt : ∀ o n v, w.getattr o n = some v → o < w.next ∧ v < w.next
  /-- the object registered under a path is the module object created for that path -/
  mod_info : ∀ p o, w.modOf p = some o → ∃ pkg, w.info.lookup o = some (.module p pkg)
  /-- an attribute of a registered module is a member object or the registered submodule of that name -/
  attr_kind : ∀ p o n v, w.modOf p = some o → w.getattr o n = some v →
    ((∃ t, w.info.lookup v = some (.tagged t false)) ∧ ∃ s, w.findSpec p = some s ∧ n ∈ s.members) ∨
    w.modOf (p ++ [n]) = some v
  /-- a registered submodule is registered under its parent and attached to it -/
  coherent : ∀ p c o, p ≠ [] → w.modOf (p ++ [c]) = some o → ∃ po, w.modOf p = some po ∧ w.getattr po c = some o

/-- `w'` extends `w`: nothing registered or attached is lost or changed, new registrations are new objects -/
structure Good (spec : List ModSpec) (w w' : PyW) : Prop where
  inv' : Inv spec w'
  next_le : w.next ≤ w'.next
  mods_mono : ∀ p o, w.modOf p = some o → w'.modOf p = some o
  attr_mono : ∀ o n v, w.getattr o n = some v → w'.getattr o n = some v
  fresh : ∀ p o, w.modOf p = none → w'.modOf p = some o → w.next ≤ o

theorem Good.refl {spec : List ModSpec} {w : PyW} (h : Inv spec w) : Good spec w w :=
  ⟨h, Nat.le_refl _, fun _ _ h => h, fun _ _ _ h => h, fun _ _ h1 h2 => by rw [h1] at h2; simp at h2⟩

theorem Good.trans {spec : List ModSpec} {a b c : PyW} (h1 : Good spec a b) (h2 : Good spec b c) : Good spec a c := by
  refine ⟨h2.inv', Nat.le_trans h1.next_le h2.next_le, fun p o h => h2.mods_mono p o (h1.mods_mono p o h),
    fun o n v h => h2.attr_mono o n v (h1.attr_mono o n v h), fun p o ha hc => ?_⟩
  cases hb : b.modOf p with
  | none => exact Nat.le_trans h1.next_le (h2.fresh p o hb hc)
  | some o' =>
    have := h2.mods_mono p o' hb
    rw [hc] at this
    simp at this; subst this
    exact h1.fresh p o ha hb

/-- changes that touch neither the tables nor the counter -/
theorem Good.of_same {spec : List ModSpec} {w w' : PyW} (h : Inv spec w)
    (h1 : w'.spec = w.spec) (h2 : w'.next = w.next) (h3 : w'.info = w.info) (h4 : w'.mods = w.mods)
    (h5 : w'.attrs = w.attrs) : Good spec w w' := by
  have hm : ∀ p, w'.modOf p = w.modOf p := fun p => by simp [modOf, h4]
  have ha : ∀ o n, w'.getattr o n = w.getattr o n := fun o n => by simp [getattr, h5]
  have hf : ∀ p, w'.findSpec p = w.findSpec p := findSpec_congr h1
  refine ⟨⟨h1.trans h.spec_eq, ?_, ?_, ?_, ?_, ?_, ?_⟩, by rw [h2]; exact Nat.le_refl _, fun p o hp => by rw [hm]; exact hp,
    fun o n v hv => by rw [ha]; exact hv, fun p o hp hq => by rw [hm, hp] at hq; simp at hq⟩
  · intro x i hx; rw [h3] at hx; rw [h2]; exact h.info_lt x i hx
  · intro p o hp; rw [hm] at hp; rw [h2]; exact h.mods_lt p o hp
  · intro o n v hv; rw [ha] at hv; rw [h2]; exact h.attrs_lt o n v hv
  · intro p o hp; rw [hm] at hp; rw [h3]; exact h.mod_info p o hp
  · intro p o n v hp hv; rw [hm] at hp; rw [ha] at hv; rw [h3, hf, hm]; exact h.attr_kind p o n v hp hv
  · intro p c o hne hp; rw [hm] at hp
    obtain ⟨po, h1', h2'⟩ := h.coherent p c o hne hp
    exact ⟨po, by rw [hm]; exact h1', by rw [ha]; exact h2'⟩

end Pfb.AutoImp.PyW
