/-
  Pfb.AutoImp.PySound — the concrete CPython-universe model `pyUniv` satisfies `Sound`
  (the hypotheses of `C07_success_resolves`) for universes whose modules have no side effects
  on other modules and no member named like one of their submodules.  (Universes WITH such
  effects are exercised by the correspondence check; they violate `Sound` on purpose.)
-/
import Pfb.AutoImp.Resolve
import Pfb.AutoImp.PyWorld
namespace Pfb.AutoImp.PyW

/-! ### association-list facts -/

theorem lookup_filter_ne {α β : Type} [BEq α] [LawfulBEq α] (l : List (α × β)) (p q : α) :
    (l.filter (fun e => e.1 != p)).lookup q = if q == p then none else l.lookup q := by
  induction l with
  | nil => simp
  | cons e l ih =>
    obtain ⟨k, v⟩ := e
    by_cases hk : k = p
    · subst hk
      simp only [List.filter_cons, bne_self_eq_false, Bool.false_eq_true, if_false, ih, List.lookup_cons]
      by_cases hq : q = k
      · subst hq; simp
      · have : (q == k) = false := by simpa using hq
        simp [this]
    · have hkp : (k != p) = true := by simpa using hk
      simp only [List.filter_cons, hkp, if_true, List.lookup_cons, ih]
      by_cases hq : q = k
      · subst hq
        have : (q == p) = false := by simpa using hk
        simp [this]
      · have : (q == k) = false := by simpa using hq
        simp [this]

/-! ### what the primitives do to the four tables -/

@[simp] theorem modOf_emit (w : PyW) (e : Event) (p : Dotted) : (w.emit e).modOf p = w.modOf p := rfl
@[simp] theorem getattr_emit (w : PyW) (e : Event) (o : Obj) (n : Name) : (w.emit e).getattr o n = w.getattr o n := rfl
@[simp] theorem info_emit (w : PyW) (e : Event) : (w.emit e).info = w.info := rfl
@[simp] theorem next_emit (w : PyW) (e : Event) : (w.emit e).next = w.next := rfl
@[simp] theorem spec_emit (w : PyW) (e : Event) : (w.emit e).spec = w.spec := rfl

@[simp] theorem modOf_alloc (w : PyW) (i : Info) (p : Dotted) : (w.alloc i).2.modOf p = w.modOf p := rfl
@[simp] theorem getattr_alloc (w : PyW) (i : Info) (o : Obj) (n : Name) : (w.alloc i).2.getattr o n = w.getattr o n := rfl
@[simp] theorem next_alloc (w : PyW) (i : Info) : (w.alloc i).2.next = w.next + 1 := rfl
@[simp] theorem fst_alloc (w : PyW) (i : Info) : (w.alloc i).1 = w.next := rfl
@[simp] theorem spec_alloc (w : PyW) (i : Info) : (w.alloc i).2.spec = w.spec := rfl
theorem info_alloc (w : PyW) (i : Info) (x : Obj) :
    (w.alloc i).2.info.lookup x = if x = w.next then some i else w.info.lookup x := by
  simp only [alloc, List.lookup_cons]
  by_cases h : x = w.next
  · subst h; simp
  · have : (x == w.next) = false := by simpa using h
    simp [this, h]

@[simp] theorem modOf_setattr (w : PyW) (o : Obj) (n : Name) (v : Obj) (p : Dotted) :
    (w.setattr o n v).modOf p = w.modOf p := rfl
@[simp] theorem info_setattr (w : PyW) (o : Obj) (n : Name) (v : Obj) : (w.setattr o n v).info = w.info := rfl
@[simp] theorem next_setattr (w : PyW) (o : Obj) (n : Name) (v : Obj) : (w.setattr o n v).next = w.next := rfl
@[simp] theorem spec_setattr (w : PyW) (o : Obj) (n : Name) (v : Obj) : (w.setattr o n v).spec = w.spec := rfl
theorem getattr_setattr (w : PyW) (o : Obj) (n : Name) (v : Obj) (o' : Obj) (n' : Name) :
    (w.setattr o n v).getattr o' n' = if o' = o ∧ n' = n then some v else w.getattr o' n' := by
  simp only [setattr, getattr, List.lookup_cons]
  by_cases h : o' = o ∧ n' = n
  · obtain ⟨rfl, rfl⟩ := h; simp
  · have : ((o', n') == (o, n)) = false := by
      simp only [beq_eq_false_iff_ne, ne_eq, Prod.mk.injEq]; exact h
    simp [this, h]

@[simp] theorem getattr_setMod (w : PyW) (p : Dotted) (o : Obj) (x : Obj) (n : Name) :
    (w.setMod p o).getattr x n = w.getattr x n := rfl
@[simp] theorem info_setMod (w : PyW) (p : Dotted) (o : Obj) : (w.setMod p o).info = w.info := rfl
@[simp] theorem next_setMod (w : PyW) (p : Dotted) (o : Obj) : (w.setMod p o).next = w.next := rfl
@[simp] theorem spec_setMod (w : PyW) (p : Dotted) (o : Obj) : (w.setMod p o).spec = w.spec := rfl
theorem modOf_setMod (w : PyW) (p : Dotted) (o : Obj) (q : Dotted) :
    (w.setMod p o).modOf q = if q == p then some o else w.modOf q := by
  simp only [setMod, modOf, List.lookup_cons, lookup_filter_ne]
  by_cases h : q == p <;> simp [h]

@[simp] theorem getattr_delMod (w : PyW) (p : Dotted) (x : Obj) (n : Name) : (w.delMod p).getattr x n = w.getattr x n := rfl
@[simp] theorem info_delMod (w : PyW) (p : Dotted) : (w.delMod p).info = w.info := rfl
@[simp] theorem next_delMod (w : PyW) (p : Dotted) : (w.delMod p).next = w.next := rfl
@[simp] theorem spec_delMod (w : PyW) (p : Dotted) : (w.delMod p).spec = w.spec := rfl
theorem modOf_delMod (w : PyW) (p : Dotted) (q : Dotted) :
    (w.delMod p).modOf q = if q == p then none else w.modOf q := by
  simp only [delMod, modOf, lookup_filter_ne]

theorem findSpec_path {w : PyW} {p : Dotted} {s : ModSpec} (h : w.findSpec p = some s) : s.path = p ∧ s ∈ w.spec := by
  unfold findSpec at h
  have h1 := List.find?_some h
  have h2 := List.mem_of_find?_eq_some h
  exact ⟨by simpa using h1, h2⟩

theorem findSpec_congr {w w' : PyW} (h : w'.spec = w.spec) (p : Dotted) : w'.findSpec p = w.findSpec p := by
  simp [findSpec, h]

theorem isPkg_congr {w w' : PyW} {o : Obj} (h : w'.info.lookup o = w.info.lookup o) : w'.isPkg o = w.isPkg o := by
  simp [isPkg, h]

/-! ### the universes covered, the invariant, the extension relation -/

structure SpecOK (spec : List ModSpec) : Prop where
  no_effects : ∀ s ∈ spec, s.effects = []
  members_not_children : ∀ s ∈ spec, ∀ m ∈ s.members, ∀ s' ∈ spec, s'.path ≠ s.path ++ [m]

/-- well-formed worlds -/
structure Inv (spec : List ModSpec) (w : PyW) : Prop where
  spec_eq : w.spec = spec
  info_lt : ∀ x i, w.info.lookup x = some i → x < w.next
  mods_lt : ∀ p o, w.modOf p = some o → o < w.next
  attrs_lt : ∀ o n v, w.getattr o n = some v → o < w.next ∧ v < w.next
  /-- the object registered under a path is the module object created for that path -/
  mod_info : ∀ p o, w.modOf p = some o → ∃ pkg, w.info.lookup o = some (.module p pkg)
  /-- an attribute of a registered module is a member object or the registered submodule of that name -/
  attr_kind : ∀ p o n v, w.modOf p = some o → w.getattr o n = some v →
    ((∃ t, w.info.lookup v = some (.tagged t false)) ∧ ∃ s, w.findSpec p = some s ∧ n ∈ s.members) ∨
    w.modOf (p ++ [n]) = some v
  /-- a registered submodule is registered under its parent and attached to it -/
  coherent : ∀ p c o, p ≠ [] → w.modOf (p ++ [c]) = some o → ∃ po, w.modOf p = some po ∧ w.getattr po c = some o

/-- `w'` extends `w`: nothing registered or attached is lost or changed, new registrations are new objects -/
structure Good (spec : List ModSpec) (w w' : PyW) : Prop where
  inv' : Inv spec w'
  next_le : w.next ≤ w'.next
  mods_mono : ∀ p o, w.modOf p = some o → w'.modOf p = some o
  attr_mono : ∀ o n v, w.getattr o n = some v → w'.getattr o n = some v
  fresh : ∀ p o, w.modOf p = none → w'.modOf p = some o → w.next ≤ o

theorem Good.refl {spec : List ModSpec} {w : PyW} (h : Inv spec w) : Good spec w w :=
  ⟨h, Nat.le_refl _, fun _ _ h => h, fun _ _ _ h => h, fun _ _ h1 h2 => by rw [h1] at h2; simp at h2⟩

theorem Good.trans {spec : List ModSpec} {a b c : PyW} (h1 : Good spec a b) (h2 : Good spec b c) : Good spec a c := by
  refine ⟨h2.inv', Nat.le_trans h1.next_le h2.next_le, fun p o h => h2.mods_mono p o (h1.mods_mono p o h),
    fun o n v h => h2.attr_mono o n v (h1.attr_mono o n v h), fun p o ha hc => ?_⟩
  cases hb : b.modOf p with
  | none => exact Nat.le_trans h1.next_le (h2.fresh p o hb hc)
  | some o' =>
    have := h2.mods_mono p o' hb
    rw [hc] at this
    simp at this; subst this
    exact h1.fresh p o ha hb

/-- changes that touch neither the tables nor the counter -/
theorem Good.of_same {spec : List ModSpec} {w w' : PyW} (h : Inv spec w)
    (h1 : w'.spec = w.spec) (h2 : w'.next = w.next) (h3 : w'.info = w.info) (h4 : w'.mods = w.mods)
    (h5 : w'.attrs = w.attrs) : Good spec w w' := by
  have hm : ∀ p, w'.modOf p = w.modOf p := fun p => by simp [modOf, h4]
  have ha : ∀ o n, w'.getattr o n = w.getattr o n := fun o n => by simp [getattr, h5]
  have hf : ∀ p, w'.findSpec p = w.findSpec p := findSpec_congr h1
  refine ⟨⟨h1.trans h.spec_eq, ?_, ?_, ?_, ?_, ?_, ?_⟩, by rw [h2]; exact Nat.le_refl _, fun p o hp => by rw [hm]; exact hp,
    fun o n v hv => by rw [ha]; exact hv, fun p o hp hq => by rw [hm, hp] at hq; simp at hq⟩
  · intro x i hx; rw [h3] at hx; rw [h2]; exact h.info_lt x i hx
  · intro p o hp; rw [hm] at hp; rw [h2]; exact h.mods_lt p o hp
  · intro o n v hv; rw [ha] at hv; rw [h2]; exact h.attrs_lt o n v hv
  · intro p o hp; rw [hm] at hp; rw [h3]; exact h.mod_info p o hp
  · intro p o n v hp hv; rw [hm] at hp; rw [ha] at hv; rw [h3, hf, hm]; exact h.attr_kind p o n v hp hv
  · intro p c o hne hp; rw [hm] at hp
    obtain ⟨po, h1', h2'⟩ := h.coherent p c o hne hp
    exact ⟨po, by rw [hm]; exact h1', by rw [ha]; exact h2'⟩

/-! ### module bodies -/

/-- what running the member assignments of a module body does -/
structure RM (w w' : PyW) (o : Obj) (ms : List Name) : Prop where
  mods : w'.mods = w.mods
  spec : w'.spec = w.spec
  next_le : w.next ≤ w'.next
  info_old : ∀ x, x < w.next → w'.info.lookup x = w.info.lookup x
  info_new : ∀ x i, w.next ≤ x → w'.info.lookup x = some i → x < w'.next ∧ ∃ t, i = .tagged t false
  attr_other : ∀ x n, x ≠ o → w'.getattr x n = w.getattr x n
  attr_notin : ∀ n, n ∉ ms → w'.getattr o n = w.getattr o n
  attr_in : ∀ n, n ∈ ms → ∃ v, w'.getattr o n = some v ∧ w.next ≤ v ∧ v < w'.next ∧
    ∃ t, w'.info.lookup v = some (.tagged t false)

theorem runMembers_spec (w : PyW) (path : Dotted) (o : Obj) (ms : List Name)
    (hinfo : ∀ x i, w.info.lookup x = some i → x < w.next) : RM w (runMembers w path o ms) o ms := by
  induction ms generalizing w with
  | nil =>
    exact ⟨rfl, rfl, Nat.le_refl _, fun _ _ => rfl, fun x i hx hi => absurd (hinfo x i hi) (by omega),
      fun _ _ _ => rfl, fun _ _ => rfl, fun n hn => by simp at hn⟩
  | cons m ms ih =>
    -- one assignment `m = _T(...)`
    let w1 := ((w.alloc (.tagged (joinDot (path ++ [m])) false)).2.setattr o m w.next)
    have hw1 : runMembers w path o (m :: ms) = runMembers w1 path o ms := rfl
    have hinfo1 : ∀ x i, w1.info.lookup x = some i → x < w1.next := by
      intro x i hx
      simp only [w1, info_setattr, next_setattr, next_alloc, info_alloc] at hx ⊢
      split at hx
      · omega
      · have := hinfo x i hx; omega
    have h := ih w1 hinfo1
    rw [hw1]
    have hn1 : w1.next = w.next + 1 := rfl
    have hi1 : ∀ x, w1.info.lookup x = if x = w.next then some (.tagged (joinDot (path ++ [m])) false) else w.info.lookup x :=
      fun x => by simp only [w1, info_setattr, info_alloc]
    have ha1 : ∀ x n, w1.getattr x n = if x = o ∧ n = m then some w.next else w.getattr x n :=
      fun x n => by simp only [w1, getattr_setattr, getattr_alloc]
    refine ⟨h.mods, h.spec, by have := h.next_le; omega, ?_, ?_, ?_, ?_, ?_⟩
    · intro x hx
      rw [h.info_old x (by omega), hi1]
      have : x ≠ w.next := by omega
      simp [this]
    · intro x i hx hi
      by_cases hx1 : w1.next ≤ x
      · exact h.info_new x i hx1 hi
      · have hxe : x = w.next := by omega
        rw [h.info_old x (by omega), hi1] at hi
        simp [hxe] at hi
        exact ⟨by have := h.next_le; omega, _, hi.symm⟩
    · intro x n hx
      rw [h.attr_other x n hx, ha1]
      simp [hx]
    · intro n hn
      have hnm : n ≠ m := fun e => hn (e ▸ List.mem_cons_self)
      have hnms : n ∉ ms := fun e => hn (List.mem_cons_of_mem _ e)
      rw [h.attr_notin n hnms, ha1]
      simp [hnm]
    · intro n hn
      by_cases hnms : n ∈ ms
      · obtain ⟨v, h1, h2, h3, h4⟩ := h.attr_in n hnms
        exact ⟨v, h1, by omega, h3, h4⟩
      · have hnm : n = m := by
          rcases List.mem_cons.1 hn with h' | h'
          · exact h'
          · exact absurd h' hnms
        have hle := h.next_le
        have e1 : (runMembers w1 path o ms).getattr o n = some w.next := by
          rw [h.attr_notin n hnms, ha1]; simp [hnm]
        have e2 : (runMembers w1 path o ms).info.lookup w.next = some (.tagged (joinDot (path ++ [m])) false) := by
          rw [h.info_old w.next (by omega), hi1]; simp
        exact ⟨w.next, e1, Nat.le_refl _, by omega, _, e2⟩

/-- a change that leaves all registrations and all attributes of existing objects alone -/
theorem good_of_tables {spec : List ModSpec} {w w' : PyW} (h : Inv spec w)
    (hspec : w'.spec = w.spec) (hnext : w.next ≤ w'.next)
    (hinfo_old : ∀ x, x < w.next → w'.info.lookup x = w.info.lookup x)
    (hinfo_lt : ∀ x i, w'.info.lookup x = some i → x < w'.next)
    (hmods : ∀ q, w'.modOf q = w.modOf q)
    (hattr_old : ∀ x n, x < w.next → w'.getattr x n = w.getattr x n)
    (hattr_new : ∀ x n v, w.next ≤ x → w'.getattr x n = some v → x < w'.next ∧ v < w'.next) :
    Good spec w w' := by
  have hf : ∀ p, w'.findSpec p = w.findSpec p := findSpec_congr hspec
  refine ⟨⟨hspec.trans h.spec_eq, hinfo_lt, ?_, ?_, ?_, ?_, ?_⟩, hnext, fun p o hp => by rw [hmods]; exact hp,
    fun o n v hv => by rw [hattr_old o n (h.attrs_lt o n v hv).1]; exact hv,
    fun p o hp hq => by rw [hmods, hp] at hq; simp at hq⟩
  · intro p o hp; rw [hmods] at hp; have := h.mods_lt p o hp; omega
  · intro o n v hv
    by_cases ho : o < w.next
    · rw [hattr_old o n ho] at hv
      have := h.attrs_lt o n v hv; omega
    · exact hattr_new o n v (by omega) hv
  · intro p o hp; rw [hmods] at hp
    rw [hinfo_old o (h.mods_lt p o hp)]; exact h.mod_info p o hp
  · intro p o n v hp hv; rw [hmods] at hp
    have ho := h.mods_lt p o hp
    rw [hattr_old o n ho] at hv
    rw [hf, hmods, hinfo_old v (h.attrs_lt o n v hv).2]
    exact h.attr_kind p o n v hp hv
  · intro p c o hne hp; rw [hmods] at hp
    obtain ⟨po, h1, h2⟩ := h.coherent p c o hne hp
    exact ⟨po, by rw [hmods]; exact h1, by rw [hattr_old po c (h.mods_lt p po h1)]; exact h2⟩

theorem mod_inj {spec : List ModSpec} {w : PyW} (h : Inv spec w) {p q : Dotted} {o : Obj}
    (hp : w.modOf p = some o) (hq : w.modOf q = some o) : p = q := by
  obtain ⟨k1, h1⟩ := h.mod_info p o hp
  obtain ⟨k2, h2⟩ := h.mod_info q o hq
  rw [h1] at h2
  simp at h2
  exact h2.1

theorem dropLast_getLast {path : Dotted} (h : path ≠ []) : path.dropLast ++ [path.getLast?.getD []] = path := by
  have := List.dropLast_concat_getLast h
  rw [List.getLast?_eq_some_getLast h]
  simpa using this

/-! ### loading one module -/

/-- the world right after a module body ran successfully, before the module is attached to its parent -/
structure Loaded (w w3 : PyW) (path : Dotted) (s : ModSpec) : Prop where
  spec : w3.spec = w.spec
  next_lt : w.next < w3.next
  info_old : ∀ x, x < w.next → w3.info.lookup x = w.info.lookup x
  info_o : w3.info.lookup w.next = some (.module path s.pkg)
  info_lt : ∀ x i, w3.info.lookup x = some i → x < w3.next
  mods : ∀ q, w3.modOf q = if q == path then some w.next else w.modOf q
  attr_old : ∀ x n, x < w.next → w3.getattr x n = w.getattr x n
  attr_o : ∀ n v, w3.getattr w.next n = some v → n ∈ s.members ∧ w.next ≤ v ∧ v < w3.next ∧
    ∃ t, w3.info.lookup v = some (.tagged t false)
  attr_new_other : ∀ x n, w.next ≤ x → x ≠ w.next → w3.getattr x n = none

theorem attach_good {spec : List ModSpec} {w w3 : PyW} {path : Dotted} {s : ModSpec}
    (hs : SpecOK spec) (hi : Inv spec w) (hnone : w.modOf path = none) (hne : path ≠ [])
    (hfs : w.findSpec path = some s) (hpar : parentOk w path = true) (hL : Loaded w w3 path s) :
    Good spec w (attach w3 path) ∧ (attach w3 path).modOf path = some w.next := by
  have hsmem : s ∈ spec := hi.spec_eq ▸ (findSpec_path hfs).2
  have hspath : s.path = path := (findSpec_path hfs).1
  have hf3 : ∀ p, w3.findSpec p = w.findSpec p := findSpec_congr hL.spec
  have hpathlook : w3.modOf path = some w.next := by rw [hL.mods]; simp
  have hmod_ne : ∀ q, q ≠ path → w3.modOf q = w.modOf q := by
    intro q hq; rw [hL.mods]
    have : (q == path) = false := by simpa using hq
    simp [this]
  have hold_ne_path : ∀ q o, w.modOf q = some o → q ≠ path := by
    intro q o hq e; rw [e, hnone] at hq; simp at hq
  -- the parent, if any
  by_cases hpe : path.dropLast.isEmpty = true
  · -- a top-level module: nothing to attach to
    have hat : attach w3 path = w3 := by simp [attach, hpe]
    rw [hat]
    refine ⟨⟨⟨hL.spec.trans hi.spec_eq, hL.info_lt, ?_, ?_, ?_, ?_, ?_⟩, by have := hL.next_lt; omega, ?_, ?_, ?_⟩, hpathlook⟩
    · intro p o hp
      by_cases hq : p = path
      · subst hq; rw [hpathlook] at hp; simp at hp; subst hp; exact hL.next_lt
      · rw [hmod_ne p hq] at hp; have := hi.mods_lt p o hp; have := hL.next_lt; omega
    · intro o n v hv
      by_cases ho : o < w.next
      · rw [hL.attr_old o n ho] at hv
        have := hi.attrs_lt o n v hv; have := hL.next_lt; omega
      · by_cases ho2 : o = w.next
        · subst ho2
          obtain ⟨_, _, h3, _⟩ := hL.attr_o n v hv
          exact ⟨hL.next_lt, h3⟩
        · rw [hL.attr_new_other o n (by omega) ho2] at hv; simp at hv
    · intro p o hp
      by_cases hq : p = path
      · subst hq; rw [hpathlook] at hp; simp at hp; subst hp; exact ⟨_, hL.info_o⟩
      · rw [hmod_ne p hq] at hp
        rw [hL.info_old o (hi.mods_lt p o hp)]; exact hi.mod_info p o hp
    · intro p o n v hp hv
      by_cases hq : p = path
      · subst hq; rw [hpathlook] at hp; simp at hp; subst hp
        obtain ⟨h1, _, _, h4⟩ := hL.attr_o n v hv
        exact Or.inl ⟨h4, s, by rw [hf3]; exact hfs, h1⟩
      · rw [hmod_ne p hq] at hp
        have ho := hi.mods_lt p o hp
        rw [hL.attr_old o n ho] at hv
        rcases hi.attr_kind p o n v hp hv with ⟨⟨t, ht⟩, hmem⟩ | h2
        · left
          refine ⟨⟨t, by rw [hL.info_old v (hi.attrs_lt o n v hv).2]; exact ht⟩, ?_⟩
          obtain ⟨s', h1, h2⟩ := hmem
          exact ⟨s', by rw [hf3]; exact h1, h2⟩
        · right; rw [hmod_ne _ (hold_ne_path _ _ h2)]; exact h2
    · intro p c o hpne hp
      by_cases hq : p ++ [c] = path
      · -- impossible: path has no parent
        have : path.dropLast = p := by rw [← hq]; simp
        rw [this] at hpe
        simp at hpe; exact absurd hpe hpne
      · rw [hmod_ne _ hq] at hp
        obtain ⟨po, h1, h2⟩ := hi.coherent p c o hpne hp
        exact ⟨po, by rw [hmod_ne _ (hold_ne_path _ _ h1)]; exact h1,
          by rw [hL.attr_old po c (hi.mods_lt p po h1)]; exact h2⟩
    · intro p o hp; rw [hmod_ne p (hold_ne_path p o hp)]; exact hp
    · intro o n v hv; rw [hL.attr_old o n (hi.attrs_lt o n v hv).1]; exact hv
    · intro p o hp hq
      by_cases he : p = path
      · subst he; rw [hpathlook] at hq; simp at hq; omega
      · rw [hmod_ne p he, hp] at hq; simp at hq
  · -- a submodule: the parent is a registered package (checked before the search)
    have hpe' : path.dropLast.isEmpty = false := by simpa using hpe
    have hparne : path.dropLast ≠ [] := by intro e; rw [e] at hpe; simp at hpe
    obtain ⟨po, hpo⟩ : ∃ po, w.modOf path.dropLast = some po := by
      simp only [parentOk, hpe', Bool.false_or] at hpar
      cases hm : w.modOf path.dropLast with
      | none => simp [hm] at hpar
      | some po => exact ⟨po, rfl⟩
    have hpolt : po < w.next := hi.mods_lt _ _ hpo
    have hparpath : path.dropLast ≠ path := hold_ne_path _ _ hpo
    have hpo3 : w3.modOf path.dropLast = some po := by rw [hmod_ne _ hparpath]; exact hpo
    have hat : attach w3 path = w3.setattr po (path.getLast?.getD []) w.next := by
      simp [attach, hpe', hpo3, hpathlook]
    have hdl := dropLast_getLast hne
    -- the parent had no attribute of that name
    have hnoattr : w.getattr po (path.getLast?.getD []) = none := by
      cases hg : w.getattr po (path.getLast?.getD []) with
      | none => rfl
      | some v =>
        rcases hi.attr_kind _ po _ v hpo hg with ⟨_, s', h1, h2⟩ | h2
        · have hs' := findSpec_path h1
          have := hs.members_not_children s' (hi.spec_eq ▸ hs'.2) _ h2 s hsmem
          rw [hspath, hs'.1, hdl] at this
          exact absurd rfl this
        · rw [hdl, hnone] at h2; simp at h2
    rw [hat]
    have hgetf : ∀ x n, (w3.setattr po (path.getLast?.getD []) w.next).getattr x n =
        if x = po ∧ n = path.getLast?.getD [] then some w.next else w3.getattr x n := getattr_setattr _ _ _ _
    refine ⟨⟨⟨hL.spec.trans hi.spec_eq, hL.info_lt, ?_, ?_, ?_, ?_, ?_⟩, by have := hL.next_lt; simp; omega, ?_, ?_, ?_⟩,
      by simpa using hpathlook⟩
    · intro p o hp
      simp only [modOf_setattr, next_setattr] at hp ⊢
      by_cases hq : p = path
      · subst hq; rw [hpathlook] at hp; simp at hp; subst hp; exact hL.next_lt
      · rw [hmod_ne p hq] at hp; have := hi.mods_lt p o hp; have := hL.next_lt; omega
    · intro o n v hv
      rw [hgetf] at hv
      simp only [next_setattr]
      split at hv
      · rename_i hc; simp at hv; subst hv; rw [hc.1]; have := hL.next_lt; exact ⟨by omega, this⟩
      · by_cases ho : o < w.next
        · rw [hL.attr_old o n ho] at hv
          have := hi.attrs_lt o n v hv; have := hL.next_lt; omega
        · by_cases ho2 : o = w.next
          · subst ho2
            obtain ⟨_, _, h3, _⟩ := hL.attr_o n v hv
            exact ⟨hL.next_lt, h3⟩
          · rw [hL.attr_new_other o n (by omega) ho2] at hv; simp at hv
    · intro p o hp
      simp only [modOf_setattr, info_setattr] at hp ⊢
      by_cases hq : p = path
      · subst hq; rw [hpathlook] at hp; simp at hp; subst hp; exact ⟨_, hL.info_o⟩
      · rw [hmod_ne p hq] at hp
        rw [hL.info_old o (hi.mods_lt p o hp)]; exact hi.mod_info p o hp
    · intro p o n v hp hv
      simp only [modOf_setattr, info_setattr] at hp ⊢
      have hff : ∀ q, (w3.setattr po (path.getLast?.getD []) w.next).findSpec q = w.findSpec q :=
        fun q => (findSpec_congr (by simp) q).trans (hf3 q)
      rw [hgetf] at hv
      by_cases hq : p = path
      · rw [hq, hpathlook] at hp; simp at hp; subst hp
        have hne' : ¬ (w.next = po ∧ n = path.getLast?.getD []) := fun h => by omega
        simp only [hne', if_false] at hv
        obtain ⟨h1, _, _, h4⟩ := hL.attr_o n v hv
        exact Or.inl ⟨h4, s, by rw [hff, hq]; exact hfs, h1⟩
      · rw [hmod_ne p hq] at hp
        have ho := hi.mods_lt p o hp
        split at hv
        · -- the attribute just attached: it is the registered submodule
          rename_i hc
          simp at hv; subst hv
          right
          have hpp : p = path.dropLast := mod_inj hi hp (hc.1 ▸ hpo)
          rw [hpp, hc.2, hdl]; exact hpathlook
        · rw [hL.attr_old o n ho] at hv
          rcases hi.attr_kind p o n v hp hv with ⟨⟨t, ht⟩, hmem⟩ | h2
          · left
            refine ⟨⟨t, by rw [hL.info_old v (hi.attrs_lt o n v hv).2]; exact ht⟩, ?_⟩
            obtain ⟨s', h1, h2⟩ := hmem
            exact ⟨s', by rw [hff]; exact h1, h2⟩
          · right; rw [hmod_ne _ (hold_ne_path _ _ h2)]; exact h2
    · intro p c o hpne hp
      simp only [modOf_setattr] at hp ⊢
      by_cases hq : p ++ [c] = path
      · have hp' : p = path.dropLast := by rw [← hq]; simp
        have hc' : c = path.getLast?.getD [] := by rw [← hq]; simp
        rw [hq, hpathlook] at hp; simp at hp; subst hp
        exact ⟨po, by rw [hp']; exact hpo3, by rw [hgetf]; simp [hc']⟩
      · rw [hmod_ne _ hq] at hp
        obtain ⟨po', h1, h2⟩ := hi.coherent p c o hpne hp
        refine ⟨po', by rw [hmod_ne _ (hold_ne_path _ _ h1)]; exact h1, ?_⟩
        rw [hgetf]
        have hne' : ¬ (po' = po ∧ c = path.getLast?.getD []) := by
          rintro ⟨e1, e2⟩
          have : p = path.dropLast := mod_inj hi h1 (e1 ▸ hpo)
          exact hq (by rw [this, e2, hdl])
        simp only [hne', if_false]
        rw [hL.attr_old po' c (hi.mods_lt p po' h1)]; exact h2
    · intro p o hp; simp only [modOf_setattr]; rw [hmod_ne p (hold_ne_path p o hp)]; exact hp
    · intro o n v hv
      rw [hgetf]
      have hne' : ¬ (o = po ∧ n = path.getLast?.getD []) := by
        rintro ⟨e1, e2⟩; rw [e1, e2, hnoattr] at hv; simp at hv
      simp only [hne', if_false]
      rw [hL.attr_old o n (hi.attrs_lt o n v hv).1]; exact hv
    · intro p o hp hq
      simp only [modOf_setattr] at hq
      by_cases he : p = path
      · subst he; rw [hpathlook] at hq; simp at hq; omega
      · rw [hmod_ne p he, hp] at hq; simp at hq

theorem loadFound_good {spec : List ModSpec} {w : PyW} {path : Dotted} {s : ModSpec}
    (hs : SpecOK spec) (hi : Inv spec w) (hnone : w.modOf path = none) (hne : path ≠ [])
    (hfs : w.findSpec path = some s) (hpar : parentOk w path = true) :
    Good spec w (loadFound w path s).2 ∧
    ((loadFound w path s).1 = true → ((loadFound w path s).2.modOf path).isSome) := by
  have hsmem : s ∈ spec := hi.spec_eq ▸ (findSpec_path hfs).2
  have heff : s.effects = [] := hs.no_effects s hsmem
  -- the module object is created and registered
  unfold loadFound
  simp only [fst_alloc]
  have hw2next : ((w.alloc (.module path s.pkg)).2.setMod path w.next).next = w.next + 1 := rfl
  have hw2spec : ((w.alloc (.module path s.pkg)).2.setMod path w.next).spec = w.spec := rfl
  have hw2info : ∀ x, ((w.alloc (.module path s.pkg)).2.setMod path w.next).info.lookup x =
      if x = w.next then some (.module path s.pkg) else w.info.lookup x :=
    fun x => by simp only [info_setMod, info_alloc]
  have hw2mods : ∀ q, ((w.alloc (.module path s.pkg)).2.setMod path w.next).modOf q =
      if q == path then some w.next else w.modOf q :=
    fun q => by simp only [modOf_setMod, modOf_alloc]
  have hw2attr : ∀ x n, ((w.alloc (.module path s.pkg)).2.setMod path w.next).getattr x n = w.getattr x n :=
    fun x n => rfl
  generalize (w.alloc (.module path s.pkg)).2.setMod path w.next = w2 at *
  have hw2infolt : ∀ x i, w2.info.lookup x = some i → x < w2.next := by
    intro x i hx; rw [hw2info] at hx
    split at hx
    · omega
    · have := hi.info_lt x i hx; omega
  have hdelmods : ∀ (w' : PyW), (∀ q, w'.modOf q = w2.modOf q) → ∀ q, (w'.delMod path).modOf q = w.modOf q := by
    intro w' hw' q
    rw [modOf_delMod, hw', hw2mods]
    by_cases hq : q = path
    · subst hq; simp [hnone]
    · have : (q == path) = false := by simpa using hq
      simp [this]
  have hnoattr : ∀ x n, w.next ≤ x → w.getattr x n = none := by
    intro x n hx
    cases hg : w.getattr x n with
    | none => rfl
    | some v => have := hi.attrs_lt x n v hg; omega
  by_cases hearly : s.raises = .early
  · -- the body raises at once: the module is un-registered again
    simp only [hearly, beq_self_eq_true, if_true]
    refine ⟨?_, by simp⟩
    refine good_of_tables hi hw2spec (by simp only [next_delMod]; omega) ?_ ?_ (hdelmods w2 (fun _ => rfl))
      (fun x n _ => by simp only [getattr_delMod]; exact hw2attr x n) ?_
    · intro x hx
      simp only [info_delMod]
      rw [hw2info]; have : x ≠ w.next := by omega
      simp [this]
    · intro x i hx
      simp only [info_delMod, next_delMod] at hx ⊢
      exact hw2infolt x i hx
    · intro x n v hx hv
      simp only [getattr_delMod] at hv
      rw [hw2attr, hnoattr x n hx] at hv; simp at hv
  · have hearly' : (s.raises == Raise.early) = false := by simpa using hearly
    simp only [hearly', Bool.false_eq_true, if_false, heff, runEffects]
    have hRM := runMembers_spec w2 path w.next s.members hw2infolt
    -- `w3`: after the body
    have hw3mods : ∀ q, (runMembers w2 path w.next s.members).modOf q = w2.modOf q :=
      fun q => by simp [modOf, hRM.mods]
    have hold : ∀ x n, x < w.next → (runMembers w2 path w.next s.members).getattr x n = w.getattr x n := by
      intro x n hx
      rw [hRM.attr_other x n (by omega), hw2attr]
    have hinfo_old : ∀ x, x < w.next → (runMembers w2 path w.next s.members).info.lookup x = w.info.lookup x := by
      intro x hx
      rw [hRM.info_old x (by omega), hw2info]
      have : x ≠ w.next := by omega
      simp [this]
    have hinfo_lt : ∀ x i, (runMembers w2 path w.next s.members).info.lookup x = some i →
        x < (runMembers w2 path w.next s.members).next := by
      intro x i hx
      by_cases hx2 : x < w2.next
      · have := hRM.next_le; omega
      · exact (hRM.info_new x i (by omega) hx).1
    have hattr_o : ∀ n v, (runMembers w2 path w.next s.members).getattr w.next n = some v →
        n ∈ s.members ∧ w.next ≤ v ∧ v < (runMembers w2 path w.next s.members).next ∧
        ∃ t, (runMembers w2 path w.next s.members).info.lookup v = some (.tagged t false) := by
      intro n v hv
      by_cases hn : n ∈ s.members
      · obtain ⟨v', h1, h2, h3, h4⟩ := hRM.attr_in n hn
        rw [h1] at hv; simp at hv; subst hv
        exact ⟨hn, by omega, h3, h4⟩
      · rw [hRM.attr_notin n hn, hw2attr, hnoattr _ _ (Nat.le_refl _)] at hv; simp at hv
    have hnew_other : ∀ x n, w.next ≤ x → x ≠ w.next → (runMembers w2 path w.next s.members).getattr x n = none := by
      intro x n hx hne'
      rw [hRM.attr_other x n hne', hw2attr, hnoattr x n hx]
    by_cases hlate : s.raises = .late
    · -- the body raises at its end: members were created on an object nobody can reach
      simp only [hlate, beq_self_eq_true, if_true]
      refine ⟨?_, by simp⟩
      refine good_of_tables hi (hRM.spec.trans hw2spec) (by have := hRM.next_le; simp; omega) ?_ ?_
        (hdelmods _ hw3mods) (fun x n hx => by simp only [getattr_delMod]; exact hold x n hx) ?_
      · intro x hx; simp only [info_delMod]; exact hinfo_old x hx
      · intro x i hx; simp only [info_delMod, next_delMod] at hx ⊢; exact hinfo_lt x i hx
      · intro x n v hx hv
        simp only [getattr_delMod, next_delMod] at hv ⊢
        by_cases hxo : x = w.next
        · subst hxo
          obtain ⟨_, _, h3, _⟩ := hattr_o n v hv
          have := hRM.next_le
          exact ⟨by omega, h3⟩
        · rw [hnew_other x n hx hxo] at hv; simp at hv
    · have hlate' : (s.raises == Raise.late) = false := by simpa using hlate
      simp only [hlate', Bool.false_eq_true, if_false]
      have hL : Loaded w (runMembers w2 path w.next s.members) path s :=
        ⟨hRM.spec.trans hw2spec, by have := hRM.next_le; omega, hinfo_old,
         by rw [hRM.info_old w.next (by omega), hw2info]; simp, hinfo_lt,
         fun q => by rw [hw3mods, hw2mods], hold, hattr_o, hnew_other⟩
      obtain ⟨hg, hm⟩ := attach_good hs hi hnone hne hfs hpar hL
      exact ⟨hg, fun _ => by rw [hm]; rfl⟩

theorem loadOne_good {spec : List ModSpec} {w : PyW} {path : Dotted}
    (hs : SpecOK spec) (hi : Inv spec w) (hnone : w.modOf path = none) (hne : path ≠ []) :
    Good spec w (loadOne w path).2 ∧ ((loadOne w path).1 = true → ((loadOne w path).2.modOf path).isSome) := by
  unfold loadOne
  by_cases hpar : parentOk w path = true
  · simp only [hpar, Bool.not_true, Bool.false_eq_true, if_false]
    have h1 : Good spec w (w.emit (.find path)) := Good.of_same hi rfl rfl rfl rfl rfl
    cases hfs : (w.emit (.find path)).findSpec path with
    | none => exact ⟨h1, by simp⟩
    | some s =>
      simp only []
      have hpar1 : parentOk (w.emit (.find path)) path = true := hpar
      obtain ⟨h2, h3⟩ := loadFound_good (w := w.emit (.find path)) hs h1.inv' (by simpa using hnone) hne hfs hpar1
      exact ⟨h1.trans h2, h3⟩
  · have : parentOk w path = false := by simpa using hpar
    simp only [this, Bool.not_false, if_true]
    exact ⟨Good.refl hi, by simp⟩

/-! ### import chains -/

theorem importChainL_good {spec : List ModSpec} (hs : SpecOK spec) (ps : List Dotted) (w : PyW)
    (hi : Inv spec w) (hne : ∀ p ∈ ps, p ≠ []) :
    Good spec w (importChainL w ps).2 ∧
    ((importChainL w ps).1 = true → ∀ p ∈ ps, ((importChainL w ps).2.modOf p).isSome) := by
  induction ps generalizing w with
  | nil => exact ⟨Good.refl hi, fun _ p hp => by simp at hp⟩
  | cons p ps ih =>
    have hne' : ∀ q ∈ ps, q ≠ [] := fun q hq => hne q (List.mem_cons_of_mem _ hq)
    unfold importChainL
    by_cases hl : (w.modOf p).isSome = true
    · simp only [hl, if_true]
      obtain ⟨h1, h2⟩ := ih w hi hne'
      refine ⟨h1, fun hok q hq => ?_⟩
      rcases List.mem_cons.1 hq with rfl | hq
      · obtain ⟨o, ho⟩ := Option.isSome_iff_exists.1 hl
        rw [h1.mods_mono q o ho]; rfl
      · exact h2 hok q hq
    · simp only [hl, Bool.false_eq_true, if_false]
      have hnone : w.modOf p = none := by simpa using hl
      obtain ⟨g1, g2⟩ := loadOne_good hs hi hnone (hne p List.mem_cons_self)
      by_cases hr : (loadOne w p).1 = true
      · simp only [hr, if_true]
        obtain ⟨h1, h2⟩ := ih (loadOne w p).2 g1.inv' hne'
        refine ⟨g1.trans h1, fun hok q hq => ?_⟩
        rcases List.mem_cons.1 hq with rfl | hq
        · obtain ⟨o, ho⟩ := Option.isSome_iff_exists.1 (g2 hr)
          rw [h1.mods_mono q o ho]; rfl
        · exact h2 hok q hq
      · simp only [hr, Bool.false_eq_true, if_false]
        exact ⟨g1, by simp⟩

theorem prefixes_append_single (q : Dotted) (c : Name) : prefixes (q ++ [c]) = prefixes q ++ [q ++ [c]] := by
  induction q with
  | nil => simp [prefixes]
  | cons x q ih => simp [prefixes, ih]

theorem prefixes_loaded_aux {spec : List ModSpec} {w : PyW} (hi : Inv spec w) (n : Nat) :
    ∀ p : Dotted, p.length = n → (w.modOf p).isSome = true → ∀ q ∈ prefixes p, (w.modOf q).isSome = true := by
  induction n with
  | zero =>
    intro p hp _ q hq
    have : p = [] := List.eq_nil_of_length_eq_zero hp
    subst this; simp [prefixes] at hq
  | succ n ih =>
    intro p hp hl r hr
    have hne : p ≠ [] := by intro e; rw [e] at hp; simp at hp
    have hdl := dropLast_getLast hne
    rw [← hdl, prefixes_append_single] at hr
    rcases List.mem_append.1 hr with hr | hr
    · by_cases hq : p.dropLast = []
      · rw [hq] at hr; simp [prefixes] at hr
      · obtain ⟨o, ho⟩ := Option.isSome_iff_exists.1 hl
        rw [← hdl] at ho
        obtain ⟨po, h1, _⟩ := hi.coherent p.dropLast _ o hq ho
        exact ih p.dropLast (by simp [hp]) (by rw [h1]; rfl) r hr
    · simp at hr; subst hr; rw [hdl]; exact hl

theorem prefixes_loaded {spec : List ModSpec} {w : PyW} (hi : Inv spec w) (p : Dotted) :
    (w.modOf p).isSome = true → ∀ q ∈ prefixes p, (w.modOf q).isSome = true :=
  prefixes_loaded_aux hi p.length p rfl

theorem importChain_good {spec : List ModSpec} (hs : SpecOK spec) (w : PyW) (p : Dotted) (hi : Inv spec w) :
    Good spec w (importChain w p).2 ∧
    ((importChain w p).1 = true → ∀ q ∈ prefixes p, ((importChain w p).2.modOf q).isSome) := by
  unfold importChain
  by_cases hl : (w.modOf p).isSome = true
  · simp only [hl, if_true]
    exact ⟨Good.refl hi, fun _ => prefixes_loaded hi p hl⟩
  · simp only [hl, Bool.false_eq_true, if_false]
    exact importChainL_good hs (prefixes p) w hi (fun q hq => prefixes_ne_nil hq)

theorem mem_prefixes_append {a b : Dotted} (ha : a ≠ []) : a ∈ prefixes (a ++ b) := by
  induction a with
  | nil => exact absurd rfl ha
  | cons x xs ih =>
    cases xs with
    | nil => simp [prefixes]
    | cons y ys =>
      have := ih (by simp)
      simp only [List.cons_append, prefixes, List.mem_cons, List.mem_map]
      right
      exact ⟨_, by simpa [prefixes] using this, rfl⟩

/-- when every prefix is registered, walking the attributes from a registered module finds everything -/
theorem walk_found {spec : List ModSpec} {w : PyW} (hi : Inv spec w) (suf : List Name) (pre : Dotted) (o : Obj)
    (hpre : pre ≠ []) (ho : w.modOf pre = some o)
    (hall : ∀ q ∈ prefixes (pre ++ suf), (w.modOf q).isSome = true) : walk pyUniv w o pre suf = .found := by
  induction suf generalizing pre o with
  | nil => rfl
  | cons part rest ih =>
    have hmem : pre ++ [part] ∈ prefixes (pre ++ part :: rest) := by
      have := mem_prefixes_append (a := pre ++ [part]) (b := rest) (by simp)
      simpa using this
    obtain ⟨o', ho'⟩ := Option.isSome_iff_exists.1 (hall _ hmem)
    obtain ⟨po, h1, h2⟩ := hi.coherent pre part o' hpre ho'
    rw [ho] at h1; simp at h1; subst h1
    have hm : pyUniv.modOf w pre = some o := ho
    have hg : pyUniv.getattr w o part = some o' := h2
    simp only [walk, hm, bne_self_eq_false, Bool.false_eq_true, if_false, hg]
    exact ih (pre ++ [part]) o' (by simp) ho' (by simpa using hall)

/-! ### import statements -/

theorem execFrom_good {spec : List ModSpec} (hs : SpecOK spec) (w : PyW) (fullname : Dotted) (hi : Inv spec w)
    (hlen : 2 ≤ fullname.length) :
    Good spec w (execFrom w fullname).2 ∧
    (∀ v, (execFrom w fullname).1 = some v →
      v < (execFrom w fullname).2.next ∧
      ∀ c : Name, (execFrom w fullname).2.modOf [c] ≠ some v) := by
  have hne : fullname ≠ [] := by intro e; rw [e] at hlen; simp at hlen
  have hdl := dropLast_getLast hne
  have hmne : fullname.dropLast ≠ [] := by
    intro e
    have : fullname.dropLast.length = fullname.length - 1 := by simp
    rw [e] at this; simp at this; omega
  -- a value found as attribute `n` of the registered module `m` is not registered under a one-part name
  have hkind : ∀ (w' : PyW), Inv spec w' → ∀ mo v, w'.modOf fullname.dropLast = some mo →
      w'.getattr mo (fullname.getLast?.getD []) = some v → ∀ c : Name, w'.modOf [c] ≠ some v := by
    intro w' hi' mo v hmo hv c hc
    rcases hi'.attr_kind _ mo _ v hmo hv with ⟨⟨t, ht⟩, _⟩ | h2
    · obtain ⟨k, hk⟩ := hi'.mod_info _ _ hc
      rw [hk] at ht; simp at ht
    · rw [hdl] at h2
      have := mod_inj hi' hc h2
      rw [← this] at hlen; simp at hlen
  have hfull : ∀ (w' : PyW), Inv spec w' → ∀ v, w'.modOf fullname = some v → ∀ c : Name, w'.modOf [c] ≠ some v := by
    intro w' hi' v hv c hc
    have := mod_inj hi' hc hv
    rw [← this] at hlen; simp at hlen
  unfold execFrom
  simp only []
  obtain ⟨g1, _⟩ := importChain_good hs w fullname.dropLast hi
  by_cases hr : (importChain w fullname.dropLast).1 = true
  · simp only [hr, Bool.not_true, Bool.false_eq_true, if_false]
    cases hmo : (importChain w fullname.dropLast).2.modOf fullname.dropLast with
    | none => exact ⟨g1, by simp⟩
    | some mo =>
      simp only []
      cases hg : (importChain w fullname.dropLast).2.getattr mo (fullname.getLast?.getD []) with
      | some v =>
        simp only []
        refine ⟨g1, fun v' hv' => ?_⟩
        simp at hv'; subst hv'
        exact ⟨(g1.inv'.attrs_lt _ _ _ hg).2, hkind _ g1.inv' mo v hmo hg⟩
      | none =>
        simp only []
        -- the optional import of the submodule m.n
        have hr2 : Good spec (importChain w fullname.dropLast).2
            (if ((importChain w fullname.dropLast).2.isPkg mo && ((importChain w fullname.dropLast).2.modOf fullname).isNone) = true
              then loadOne (importChain w fullname.dropLast).2 fullname else (true, (importChain w fullname.dropLast).2)).2 := by
          split
          · rename_i hc
            have hnone : (importChain w fullname.dropLast).2.modOf fullname = none := by
              have : ((importChain w fullname.dropLast).2.modOf fullname).isNone = true := by
                simp only [Bool.and_eq_true] at hc; exact hc.2
              simpa using this
            exact (loadOne_good hs g1.inv' hnone hne).1
          · exact Good.refl g1.inv'
        generalize (if ((importChain w fullname.dropLast).2.isPkg mo && ((importChain w fullname.dropLast).2.modOf fullname).isNone) = true
              then loadOne (importChain w fullname.dropLast).2 fullname else (true, (importChain w fullname.dropLast).2)) = r2 at hr2 ⊢
        have g2 := g1.trans hr2
        by_cases hr2b : r2.1 = true
        · simp only [hr2b, Bool.not_true, Bool.false_eq_true, if_false]
          have hmo2 : r2.2.modOf fullname.dropLast = some mo := hr2.mods_mono _ _ hmo
          cases hg2 : r2.2.getattr mo (fullname.getLast?.getD []) with
          | some v =>
            simp only []
            refine ⟨g2, fun v' hv' => ?_⟩
            simp at hv'; subst hv'
            exact ⟨(hr2.inv'.attrs_lt _ _ _ hg2).2, hkind _ hr2.inv' mo v hmo2 hg2⟩
          | none =>
            simp only []
            refine ⟨g2, fun v hv => ?_⟩
            exact ⟨hr2.inv'.mods_lt _ _ hv, hfull _ hr2.inv' v hv⟩
        · simp only [hr2b, Bool.not_false, if_true]
          exact ⟨g2, by simp⟩
  · simp only [hr, Bool.not_false, if_true]
    exact ⟨g1, by simp⟩

theorem execStmt_good {spec : List ModSpec} (hs : SpecOK spec) (w : PyW) (imp : Import) (hi : Inv spec w) :
    Good spec w (execStmt w imp).2 ∧
    (∀ v, (execStmt w imp).1 = some v → v < (execStmt w imp).2.next) ∧
    (imp.importAs ≠ imp.fullname → ∀ v, (execStmt w imp).1 = some v → (execStmt w imp).2.modOf imp.importAs ≠ some v) ∧
    (imp.importAs = imp.fullname → imp.fullname ≠ [] → ∀ v, (execStmt w imp).1 = some v →
      (execStmt w imp).2.modOf (imp.fullname.take 1) = some v ∧
      ∀ q ∈ prefixes imp.fullname, ((execStmt w imp).2.modOf q).isSome = true) := by
  unfold execStmt
  by_cases h0 : imp.fullname.isEmpty = true
  · simp only [h0, if_true]
    exact ⟨Good.refl hi, by simp, by simp, fun _ hne => by
      have : imp.fullname = [] := by simpa using h0
      exact absurd this hne⟩
  · simp only [h0, Bool.false_eq_true, if_false]
    obtain ⟨g1, g1'⟩ := importChain_good hs w imp.fullname hi
    by_cases h1 : imp.importAs = imp.fullname
    · have h1' : (imp.importAs == imp.fullname) = true := by simpa using h1
      simp only [h1', if_true]
      by_cases hr : (importChain w imp.fullname).1 = true
      · simp only [hr, if_true]
        refine ⟨g1, fun v hv => g1.inv'.mods_lt _ _ hv, fun hne => absurd h1 hne, fun _ _ v hv => ⟨hv, g1' hr⟩⟩
      · simp only [hr, Bool.false_eq_true, if_false]
        exact ⟨g1, by simp, by simp, by simp⟩
    · have h1' : (imp.importAs == imp.fullname) = false := by simpa using h1
      simp only [h1', Bool.false_eq_true, if_false]
      by_cases h2 : imp.importAs.length = 1
      · have h2' : (imp.importAs.length != 1) = false := by simp [h2]
        simp only [h2', Bool.false_eq_true, if_false]
        obtain ⟨c, hc⟩ : ∃ c, imp.importAs = [c] := by
          cases hia : imp.importAs with
          | nil => rw [hia] at h2; simp at h2
          | cons c rest =>
            cases rest with
            | nil => exact ⟨c, rfl⟩
            | cons _ _ => rw [hia] at h2; simp at h2
        by_cases h3 : imp.fullname.length = 1
        · have h3' : (imp.fullname.length == 1) = true := by simp [h3]
          simp only [h3', if_true]
          by_cases hr : (importChain w imp.fullname).1 = true
          · simp only [hr, if_true]
            refine ⟨g1, fun v hv => g1.inv'.mods_lt _ _ hv, fun _ v hv hc' => ?_, fun he => absurd he h1⟩
            exact h1 (mod_inj g1.inv' hc' hv)
          · simp only [hr, Bool.false_eq_true, if_false]
            exact ⟨g1, by simp, by simp, by simp⟩
        · have h3' : (imp.fullname.length == 1) = false := by simp [h3]
          simp only [h3', Bool.false_eq_true, if_false]
          have hlen : 2 ≤ imp.fullname.length := by
            have : imp.fullname ≠ [] := by simpa using h0
            have := List.length_pos_iff.2 this
            omega
          obtain ⟨e1, e2⟩ := execFrom_good hs w imp.fullname hi hlen
          refine ⟨e1, fun v hv => (e2 v hv).1, fun _ v hv => ?_, fun he => absurd he h1⟩
          rw [hc]; exact (e2 v hv).2 c
      · have h2' : (imp.importAs.length != 1) = true := by simp [h2]
        simp only [h2', if_true]
        exact ⟨Good.refl hi, by simp, by simp, by simp⟩

/-! ### `exists` -/

theorem existsN_good {spec : List ModSpec} (hs : SpecOK spec) (fuel : Nat) (w : PyW) (p : Dotted) (hi : Inv spec w) :
    Good spec w (existsN fuel w p).2 := by
  induction fuel generalizing w p with
  | zero => exact Good.refl hi
  | succ fuel ih =>
    have hcache : ∀ (w' : PyW) (b : Bool), Inv spec w' →
        Good spec w' { w' with existsCache := (p, b) :: w'.existsCache } :=
      fun w' b hi' => Good.of_same hi' rfl rfl rfl rfl rfl
    unfold existsN
    cases hc : w.existsCache.lookup p with
    | some b => exact Good.refl hi
    | none =>
      simp only []
      split
      · exact hcache w true hi
      · split
        · have h1 : Good spec w (w.emit (.find p)) := Good.of_same hi rfl rfl rfl rfl rfl
          exact h1.trans (hcache _ _ h1.inv')
        · have h1 := ih w p.dropLast hi
          split
          · exact h1.trans (hcache _ _ h1.inv')
          · have h2 : Good spec (existsN fuel w p.dropLast).2 ((existsN fuel w p.dropLast).2.emit (.probe p.dropLast)) :=
              Good.of_same h1.inv' rfl rfl rfl rfl rfl
            have h3 := (importChain_good hs ((existsN fuel w p.dropLast).2.emit (.probe p.dropLast)) p.dropLast h2.inv').1
            have h123 := (h1.trans h2).trans h3
            split
            · exact h123.trans (hcache _ _ h123.inv')
            · split
              · exact h123.trans (hcache _ _ h123.inv')
              · split
                · exact h123.trans (hcache _ _ h123.inv')
                · have h4 : Good spec (importChain ((existsN fuel w p.dropLast).2.emit (.probe p.dropLast)) p.dropLast).2
                      ((importChain ((existsN fuel w p.dropLast).2.emit (.probe p.dropLast)) p.dropLast).2.emit (.find p)) :=
                    Good.of_same h123.inv' rfl rfl rfl rfl rfl
                  exact (h123.trans h4).trans (hcache _ _ (h123.trans h4).inv')

/-! ### the instance -/

theorem wstep_good {spec : List ModSpec} (hs : SpecOK spec) {w w' : PyW} (hi : Inv spec w)
    (h : WStep pyUniv w w') : Good spec w w' := by
  rcases h with ⟨imp, rfl⟩ | ⟨p, rfl⟩
  · have h1 : Good spec w (w.emit (.stmt imp)) := Good.of_same hi rfl rfl rfl rfl rfl
    exact h1.trans (execStmt_good hs _ imp h1.inv').1
  · exact existsN_good hs _ w p hi

theorem inv_empty (spec : List ModSpec) : Inv spec (PyW.empty spec) := by
  refine ⟨rfl, ?_, ?_, ?_, ?_, ?_, ?_⟩
  · intro x i hx
    simp only [PyW.empty, List.lookup_cons] at hx ⊢
    by_cases h0 : x = 0
    · subst h0; decide
    · have : (x == 0) = false := by simpa using h0
      simp [this] at hx
  all_goals simp [PyW.empty, modOf, getattr]

/-- **`pyUniv` satisfies `Sound`** for side-effect-free universes: the hypotheses of
    `C07_success_resolves` hold for the concrete model of CPython's import system that the
    correspondence check validates against the real interpreter. -/
theorem pyUniv_sound {spec : List ModSpec} (hs : SpecOK spec) :
    Sound pyUniv (Inv spec) (fun w o => o < w.next) where
  inv_step := fun hi h => (wstep_good hs hi h).inv'
  mods_mono := fun hi h hm => (wstep_good hs hi h).mods_mono _ _ hm
  attr_mono := fun hi h ha => (wstep_good hs hi h).attr_mono _ _ _ ha
  known_mono := fun hi h hk => Nat.lt_of_lt_of_le hk (wstep_good hs hi h).next_le
  fresh := fun hi h h1 h2 hk => by
    have := (wstep_good hs hi h).fresh _ _ h1 h2
    omega
  known_attr := fun hi _ ha => (hi.attrs_lt _ _ _ ha).2
  exec_known := by
    intro w imp o hi ho
    have h1 : Good spec w (w.emit (.stmt imp)) := Good.of_same hi rfl rfl rfl rfl rfl
    exact (execStmt_good hs _ imp h1.inv').2.1 o ho
  plain_sound := by
    intro w p o hi hp ho
    have h1 : Good spec w (w.emit (.stmt ⟨p, p⟩)) := Good.of_same hi rfl rfl rfl rfl rfl
    obtain ⟨g, _, _, h4⟩ := execStmt_good hs _ ⟨p, p⟩ h1.inv'
    obtain ⟨hm, hall⟩ := h4 rfl hp o ho
    cases p with
    | nil => exact absurd rfl hp
    | cons hd tl =>
      have := walk_found g.inv' tl [hd] o (by simp) (by simpa using hm) (by simpa using hall)
      show walk pyUniv (execStmt (w.emit (.stmt ⟨hd :: tl, hd :: tl⟩)) ⟨hd :: tl, hd :: tl⟩).2 o [hd] tl ≠ .missingAttr
      rw [this]; simp
  alias_opaque := by
    intro w imp o hi hne ho
    have h1 : Good spec w (w.emit (.stmt imp)) := Good.of_same hi rfl rfl rfl rfl rfl
    exact (execStmt_good hs _ imp h1.inv').2.2.1 hne o ho

end Pfb.AutoImp.PyW
