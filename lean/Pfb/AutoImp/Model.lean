/-
  Pfb.AutoImp.Model — executable model of pyflyby's auto-import state machine
  (`lib/python/pyflyby/_autoimp.py`: `symbol_needs_import`, `get_known_import`,
  `_try_import`, `auto_import_symbol`, `auto_import`), shared by C06 and C07.

  The import machinery of CPython is a PARAMETER (`Univ W`): what executing an
  import statement in a scratch namespace yields, `ModuleHandle(p).exists`,
  `sys.modules.get` and `getattr`.  Every theorem of `Pfb.AutoImp.Props` that
  does not mention `Sound` holds for an arbitrary `Univ`; the concrete model of
  CPython's import system used by the correspondence check is `Pfb.AutoImp.PyWorld`.

  Inputs that are NOT modelled here (they belong to other properties) and are
  taken from the real code by the harness:
    * the list of missing dotted names (`find_missing_imports`, C05) — `none` = SyntaxError;
    * the database lookup table `by_fullname_or_import_as` (C12) — `DB`.
  Assumption: namespace dict keys are identifiers, so of the partial names
  `a.b.c`, `a.b`, `a` only the head can be a key.
-/
import Pfb.Basic
namespace Pfb.AutoImp

abbrev Name := Str
/-- a dotted identifier as its parts (`DottedIdentifier.parts`) -/
abbrev Dotted := List Name
/-- object identity (a notation, not a definition, so that `omega` sees plain `Nat`s) -/
notation "Obj" => Nat

/-- `pyflyby.Import`: `fullname`, `import_as`.  `import a.b` = ⟨a.b, a.b⟩,
    `from a import b as c` = ⟨a.b, c⟩, `import a as c` = ⟨a, c⟩. -/
structure Import where
  fullname : Dotted
  importAs : Dotted
deriving DecidableEq, Repr

/-- a namespace dict: association list, first match wins, new keys appended -/
abbrev NS := List (Name × Obj)

/-- `by_fullname_or_import_as` -/
abbrev DB := List (Dotted × List Import)

/-- CPython's import machinery as seen by pyflyby. -/
structure Univ (W : Type) where
  /-- `exec(str(imp), scratch); scratch[name0]` — `none` = any `Exception` -/
  exec : W → Import → Option Obj × W
  /-- `ModuleHandle(p).exists` (may import parent packages, is cached) -/
  exists_ : W → Dotted → Bool × W
  /-- `sys.modules.get(str(p))` -/
  modOf : W → Dotted → Option Obj
  /-- `getattr(o, n)`; `none` = AttributeError -/
  getattr : W → Obj → Name → Option Obj

/-- one executed import statement (`exec(stmt, scratch_namespace)` in `_try_import`) -/
structure Rec where
  imp : Import
  /-- what `scratch_namespace[name0]` was; `none` = the statement raised -/
  res : Option Obj
  /-- index of the namespace imported into -/
  tgt : Nat
  /-- executed by the ancestor loop after `pmodule.exists` returned True -/
  loop : Bool
  before : List NS
  after : List NS
deriving Repr

structure State (W : Type) where
  /-- the ScopeStack, most global first; `namespaces[-1]` is the last one -/
  nss : List NS
  /-- `_IMPORT_FAILED` -/
  failed : List Import
  /-- the per-cell `autoimported` map (newest entry first) -/
  attempted : List (Dotted × Bool)
  w : W
  /-- every executed import statement, oldest first -/
  log : List Rec

variable {W : Type}

/-- `autoimported[k] = b` -/
def State.withAtt (st : State W) (k : Dotted) (b : Bool) : State W :=
  { st with attempted := (k, b) :: st.attempted }

def State.withW (st : State W) (w : W) : State W := { st with w := w }

@[simp] theorem State.withAtt_nss (st : State W) (k : Dotted) (b : Bool) : (st.withAtt k b).nss = st.nss := rfl
@[simp] theorem State.withAtt_w (st : State W) (k : Dotted) (b : Bool) : (st.withAtt k b).w = st.w := rfl
@[simp] theorem State.withAtt_failed (st : State W) (k : Dotted) (b : Bool) : (st.withAtt k b).failed = st.failed := rfl
@[simp] theorem State.withAtt_log (st : State W) (k : Dotted) (b : Bool) : (st.withAtt k b).log = st.log := rfl
@[simp] theorem State.withAtt_attempted (st : State W) (k : Dotted) (b : Bool) :
    (st.withAtt k b).attempted = (k, b) :: st.attempted := rfl
@[simp] theorem State.withW_nss (st : State W) (w : W) : (st.withW w).nss = st.nss := rfl
@[simp] theorem State.withW_w (st : State W) (w : W) : (st.withW w).w = w := rfl
@[simp] theorem State.withW_failed (st : State W) (w : W) : (st.withW w).failed = st.failed := rfl
@[simp] theorem State.withW_log (st : State W) (w : W) : (st.withW w).log = st.log := rfl
@[simp] theorem State.withW_attempted (st : State W) (w : W) : (st.withW w).attempted = st.attempted := rfl

/-! ### symbol_needs_import -/

inductive Walk where
  | found        -- every part was an attribute: `return False`
  | notModule    -- `var is not sys.modules.get(pname)`: `return False`
  | missingAttr  -- AttributeError: `break`, go on with the next scope
deriving DecidableEq, Repr

/-- the inner `for part in suffix_parts` loop of `symbol_needs_import` -/
def walk (U : Univ W) (w : W) : Obj → Dotted → List Name → Walk
  | _, _, [] => .found
  | var, pname, part :: rest =>
    if U.modOf w pname != some var then .notModule
    else match U.getattr w var part with
      | none => .missingAttr
      | some v => walk U w v (pname ++ [part]) rest

/-- does this namespace settle "no import needed" for the dotted name? -/
def settles (U : Univ W) (w : W) (d : Dotted) (ns : NS) : Bool :=
  match d with
  | [] => false
  | h :: rest =>
    match ns.lookup h with
    | none => false
    | some var => walk U w var [h] rest != .missingAttr

/-- `symbol_needs_import(fullname, namespaces)`.  The code scans the scopes from the innermost
    outwards and returns False at the first one that settles; nothing is mutated, so the
    result is "no scope settles". -/
def symbolNeedsImport (U : Univ W) (w : W) (nss : List NS) (d : Dotted) : Bool :=
  !(nss.reverse.any (settles U w d))

/-! ### get_known_import -/

/-- `DottedIdentifier.prefixes`: `a`, `a.b`, `a.b.c` -/
def prefixes : Dotted → List Dotted
  | [] => []
  | x :: xs => [x] :: (prefixes xs).map (x :: ·)

/-- deepest prefix with a key in the table -/
def getKnownImport (db : DB) (d : Dotted) : Option (List Import) :=
  (prefixes d).reverse.findSome? (fun p => db.lookup p)

/-! ### _try_import -/

def getNs (nss : List NS) (i : Nat) : NS := nss.getD i []

/-- `namespace[name0] = imported` in namespace number `i` -/
def addAt : List NS → Nat → Name → Obj → List NS
  | [], _, _, _ => []
  | ns :: rest, 0, k, v => (ns ++ [(k, v)]) :: rest
  | ns :: rest, i + 1, k, v => ns :: addAt rest i k v

/-- `impas.split(".", 1)[0]` -/
def name0 (imp : Import) : Name := imp.importAs.headD []

def tryImport (U : Univ W) (imp : Import) (tgt : Nat) (loop : Bool) (st : State W) : Bool × State W :=
  if imp ∈ st.failed then (false, st)
  else
    let r := U.exec st.w imp
    match r.1 with
    | none =>
      let rec_ : Rec := ⟨imp, none, tgt, loop, st.nss, st.nss⟩
      (false, { st with w := r.2, failed := imp :: st.failed, log := st.log ++ [rec_] })
    | some imported =>
      match (getNs st.nss tgt).lookup (name0 imp) with
      | none =>
        let nss' := addAt st.nss tgt (name0 imp) imported
        let rec_ : Rec := ⟨imp, some imported, tgt, loop, st.nss, nss'⟩
        (true, { st with w := r.2, nss := nss', log := st.log ++ [rec_] })
      | some pre =>
        -- `if preexisting is not imported: return False`
        let rec_ : Rec := ⟨imp, some imported, tgt, loop, st.nss, st.nss⟩
        (pre == imported, { st with w := r.2, log := st.log ++ [rec_] })

/-! ### auto_import_symbol -/

inductive Outcome where
  | ok (b : Bool)
  | assertion        -- `assert len(imports) >= 1`
deriving DecidableEq, Repr

/-- `for pmodule in ModuleHandle(fullname).ancestors:` -/
def ancestorLoop (U : Univ W) (tgt : Nat) : List Dotted → State W → Bool × State W
  | [], st => (true, st)
  | p :: ps, st =>
    if !symbolNeedsImport U st.w st.nss p then ancestorLoop U tgt ps st
    else if st.attempted.lookup p == some false then (false, st)
    else
      let e := U.exists_ st.w p
      if !e.1 then (false, (st.withW e.2).withAtt p false)
      else
        let r := tryImport U ⟨p, p⟩ tgt true (st.withW e.2)
        if !r.1 then (false, r.2.withAtt p r.1) else ancestorLoop U tgt ps (r.2.withAtt p r.1)

/-- `auto_import_symbol(fullname, namespaces, db, autoimported)`.
    `viaStr`: the caller passed `fullname` as a `str` (then `imp.import_as == fullname` can be
    true); `auto_import` passes `DottedIdentifier`s, for which that comparison is always False. -/
def autoImportSymbol (U : Univ W) (db : DB) (viaStr : Bool) (d : Dotted) (st : State W) :
    Outcome × State W :=
  let tgt := st.nss.length - 1
  if !symbolNeedsImport U st.w st.nss d then (.ok true, st)
  else if (st.attempted.lookup d).isSome then (.ok false, st)
  else
    match getKnownImport db d with
    | none =>
      let r := ancestorLoop U tgt (prefixes d) st
      (.ok r.1, r.2)
    | some [] => (.assertion, st)
    | some [imp] =>
      if symbolNeedsImport U st.w st.nss imp.importAs then
        let r := tryImport U imp tgt false st
        if !r.1 then (.ok false, r.2.withAtt d false)
        else
          let st2 := r.2.withAtt imp.importAs true
          if viaStr && imp.importAs == d then (.ok true, st2)
          else if imp.importAs != imp.fullname then (.ok true, st2)
          else
            let r2 := ancestorLoop U tgt (prefixes d) st2
            (.ok r2.1, r2.2)
      else
        let r := ancestorLoop U tgt (prefixes d) st
        (.ok r.1, r.2)
    | some (_ :: _ :: _) => (.ok false, st.withAtt d false)

/-! ### auto_import -/

/-- `for fullname in fullnames: ok &= auto_import_symbol(...)` (an AssertionError propagates) -/
def foldSyms (U : Univ W) (db : DB) : List Dotted → Bool → State W → Outcome × State W
  | [], acc, st => (.ok acc, st)
  | d :: ds, acc, st =>
    match autoImportSymbol U db false d st with
    | (.assertion, st') => (.assertion, st')
    | (.ok b, st') => foldSyms U db ds (acc && b) st'

/-- `auto_import(code, namespaces, db, autoimported)`; `missing = none`: `find_missing_imports`
    raised SyntaxError. -/
def autoImport (U : Univ W) (db : DB) (missing : Option (List Dotted)) (st : State W) :
    Outcome × State W :=
  match missing with
  | none => (.ok false, st)
  | some ds => foldSyms U db ds true st

/-! ### histories -/

inductive Call where
  | code (missing : Option (List Dotted))     -- auto_import(code, …)
  | symbol (d : Dotted)                       -- auto_import_symbol("a.b", …)
  | tryImp (imp : Import) (ns : Nat)          -- _try_import(imp, namespaces[ns])
  | newCell                                   -- a new cell: a fresh `autoimported` map
deriving Repr

def step (U : Univ W) (db : DB) (c : Call) (st : State W) : Outcome × State W :=
  match c with
  | .code m => autoImport U db m st
  | .symbol d => autoImportSymbol U db true d st
  | .tryImp imp i => let r := tryImport U imp i false st; (.ok r.1, r.2)
  | .newCell => (.ok true, { st with attempted := [] })

def run (U : Univ W) (db : DB) : List Call → State W → List Outcome × State W
  | [], st => ([], st)
  | c :: cs, st =>
    let r := step U db c st
    let rs := run U db cs r.2
    (r.1 :: rs.1, rs.2)

end Pfb.AutoImp
