/-
  Pfb.AutoImp.Resolve — what a successful auto-import establishes.

  * for an arbitrary universe: the head of the name ends up bound (`HeadBound`), which is what
    "no NameError" needs;
  * for a universe satisfying `Sound` (explicit facts about CPython's import system: sys.modules
    and attributes only grow, new module objects are fresh, `import a.b.c` makes `a.b.c` reachable
    from what it binds, an alias import does not yield the module registered under the alias):
    `symbol_needs_import` is False afterwards and stays False.
-/
import Pfb.AutoImp.Flow
namespace Pfb.AutoImp

variable {W : Type}

/-! ### what a successful `_try_import` leaves in the target -/

section
variable (U : Univ W)

theorem lookup_append_single (ns : NS) (k : Name) (v : Obj) (h : ns.lookup k = none) :
    (ns ++ [(k, v)]).lookup k = some v := by
  simp [List.lookup_append, h, List.lookup_cons]

theorem tryImport_true (imp : Import) (tgt : Nat) (loop : Bool) (st st' : State W)
    (h : tryImport U imp tgt loop st = (true, st')) (htgt : tgt < st.nss.length) :
    ∃ v, (U.exec st.w imp).1 = some v ∧ (getNs st'.nss tgt).lookup (name0 imp) = some v ∧
      st'.w = (U.exec st.w imp).2 ∧ st'.attempted = st.attempted ∧
      (∀ i k x, (getNs st'.nss i).lookup k = some x →
        (getNs st.nss i).lookup k = some x ∨ (i = tgt ∧ k = name0 imp ∧ x = v)) := by
  have hs := tryImport_spec U imp tgt loop st
  simp only [h] at hs
  obtain ⟨hatt, hs⟩ := hs
  rcases hs with ⟨_, heq⟩ | ⟨rc, hok, _, hnss, hw, hiff, _, _⟩
  · simp at heq
  · have hnf : ¬ rc.Failed := hiff.1 (by simp)
    cases hres : rc.res with
    | none => exact absurd (Or.inl hres) hnf
    | some v =>
      have hex : (U.exec st.w imp).1 = some v := by rw [← hok.res_eq, hres]
      refine ⟨v, hex, ?_, hw, hatt, ?_⟩
      · rcases hok.added hnf v hres with ⟨hnone, h2⟩ | ⟨hsome, h2⟩
        · rw [hnss, h2, hok.before_eq, getNs_addAt_eq _ _ _ _ htgt]
          rw [hok.before_eq] at hnone
          exact lookup_append_single _ _ _ hnone
        · rw [hnss, h2]; exact hsome
      · intro i k x hx
        rcases hok.added hnf v hres with ⟨hnone, h2⟩ | ⟨_, h2⟩
        · rw [hnss, h2, hok.before_eq] at hx
          rw [hok.before_eq] at hnone
          by_cases hi : i = tgt
          · subst hi
            rw [getNs_addAt_eq _ _ _ _ htgt, List.lookup_append] at hx
            cases hl : (getNs st.nss i).lookup k with
            | some y => rw [hl] at hx; simp at hx; left; rw [hx]
            | none =>
              rw [hl] at hx
              by_cases hk : k = name0 imp
              · subst hk; simp [List.lookup_cons] at hx; right; exact ⟨rfl, rfl, hx.symm⟩
              · have : (k == name0 imp) = false := by simpa using hk
                simp [List.lookup_cons, this] at hx
          · rw [getNs_addAt_ne _ _ _ _ _ hi] at hx; exact Or.inl hx
        · rw [hnss, h2, hok.before_eq] at hx; exact Or.inl hx

/-! ### success binds the head (any universe) -/

theorem headBound_of_lookup {nss : List NS} {i : Nat} {d : Dotted} {h : Name} {v : Obj}
    (hi : i < nss.length) (hd : d.head? = some h) (hl : (getNs nss i).lookup h = some v) : HeadBound nss d :=
  ⟨h, hd, getNs nss i, getNs_mem hi, by simp [hl]⟩

theorem tryImport_length (imp : Import) (tgt : Nat) (loop : Bool) (st : State W) :
    (tryImport U imp tgt loop st).2.nss.length = st.nss.length :=
  (Reach.tryImp (U := U) (P := fun _ _ _ _ => True) imp tgt loop (.refl st) trivial).length

theorem ancestorLoop_true_headBound (tgt : Nat) (ps : List Dotted) (st st' : State W)
    (h : ancestorLoop U tgt ps st = (true, st')) (htgt : tgt < st.nss.length) (hne : ∀ p ∈ ps, p ≠ []) :
    ∀ p ∈ ps, HeadBound st'.nss p := by
  induction ps generalizing st with
  | nil => simp
  | cons p ps ih =>
    have hne' : ∀ q ∈ ps, q ≠ [] := fun q hq => hne q (List.mem_cons_of_mem _ hq)
    have hframe : ∀ s : State W, ancestorLoop U tgt ps s = (true, st') → Frame s.nss st'.nss := by
      intro s hs
      have := (reach_ancestorLoop U (fun _ _ _ _ => True) tgt ps s (fun _ _ _ _ _ => trivial)).frame
      rw [hs] at this; exact this
    rw [ancestorLoop_cons] at h
    split at h
    · rename_i hs
      intro q hq
      rcases List.mem_cons.1 hq with rfl | hq
      · exact (not_sni_headBound U hs).mono (hframe st h)
      · exact ih st h htgt hne' q hq
    · split at h
      · simp at h
      · split at h
        · simp at h
        · split at h
          · simp at h
          · rename_i hr
            have hr' : (tryImport U ⟨p, p⟩ tgt true (st.withW (U.exists_ st.w p).2)).1 = true := by simpa using hr
            obtain ⟨v, _, hl, _, _, _⟩ := tryImport_true U ⟨p, p⟩ tgt true (st.withW (U.exists_ st.w p).2) _
              (Prod.ext hr' rfl) htgt
            have hlen := tryImport_length U ⟨p, p⟩ tgt true (st.withW (U.exists_ st.w p).2)
            simp only [State.withW_nss] at hlen
            intro q hq
            rcases List.mem_cons.1 hq with rfl | hq
            · have hb : HeadBound ((tryImport U ⟨q, q⟩ tgt true (st.withW (U.exists_ st.w q).2)).2.withAtt q true).nss q :=
                headBound_of_lookup (by simp [hlen]; exact htgt)
                  (head?_headD (hne q List.mem_cons_self)) (by rw [name0_plain] at hl; exact hl)
              exact hb.mono (hframe _ h)
            · exact ih _ h (by simp [hlen]; exact htgt) hne' q hq

theorem autoImportSymbol_true_headBound (db : DB) (hdb : DbKeyed db) (viaStr : Bool) (d : Dotted) (st st' : State W)
    (hnss : st.nss ≠ []) (hd : d ≠ [])
    (h : autoImportSymbol U db viaStr d st = (.ok true, st')) : HeadBound st'.nss d := by
  have htgt : st.nss.length - 1 < st.nss.length := by
    have : 0 < st.nss.length := List.length_pos_iff.2 hnss
    omega
  have hloop : ∀ s : State W, s.nss.length = st.nss.length →
      (Outcome.ok (ancestorLoop U (st.nss.length - 1) (prefixes d) s).1,
        (ancestorLoop U (st.nss.length - 1) (prefixes d) s).2) = (Outcome.ok true, st') → HeadBound st'.nss d := by
    intro s hlen hl
    have h1 := congrArg Prod.fst hl
    have h2 := congrArg Prod.snd hl
    simp at h1 h2
    exact ancestorLoop_true_headBound U _ _ s st' (Prod.ext h1 h2) (by rw [hlen]; exact htgt)
      (fun p hp => prefixes_ne_nil hp) d (self_mem_prefixes hd)
  rw [autoImportSymbol_eq] at h
  split at h
  · rename_i hs
    have : st' = st := by simpa using (congrArg Prod.snd h).symm
    subst this
    exact not_sni_headBound U hs
  · split at h
    · simp at h
    · split at h
      · exact hloop st rfl h
      · simp at h
      · rename_i imp hk
        -- the unique entry: its bound name is the head of `d`
        have hhead : d.head? = some (name0 imp) := by
          obtain ⟨k, hkp, hl⟩ := getKnownImport_some hk
          have := hdb k [imp] hl imp (by simp)
          rw [← prefixes_head hkp, name0, this]
          exact head?_headD (prefixes_ne_nil hkp)
        split at h
        · exact hloop st rfl h
        · split at h
          · simp at h
          · rename_i hr
            have hr' : (tryImport U imp (st.nss.length - 1) false st).1 = true := by simpa using hr
            obtain ⟨v, _, hl, _, _, _⟩ := tryImport_true U imp _ false st _ (Prod.ext hr' rfl) htgt
            have hlen := tryImport_length U imp (st.nss.length - 1) false st
            have hb : HeadBound ((tryImport U imp (st.nss.length - 1) false st).2.withAtt imp.importAs true).nss d :=
              headBound_of_lookup (by simp [hlen]; exact htgt) hhead hl
            split at h
            · have : st' = _ := (congrArg Prod.snd h).symm
              subst this; exact hb
            · exact hloop _ (by simp [hlen]) h
      · simp at h

/-- if the fold reports success, every symbol's own call reported success, in the state it ran in -/
theorem foldSyms_true (db : DB) (ds : List Dotted) (acc : Bool) (st st' : State W)
    (h : foldSyms U db ds acc st = (.ok true, st')) :
    acc = true ∧ ∀ pre d post, ds = pre ++ d :: post →
      ∃ s s1, (foldSyms U db pre acc st).2 = s ∧ autoImportSymbol U db false d s = (.ok true, s1) ∧
        foldSyms U db post true s1 = (.ok true, st') ∧ s.nss.length = st.nss.length := by
  induction ds generalizing acc st with
  | nil =>
    simp [foldSyms] at h
    exact ⟨h.1, fun pre d post hd => by simp at hd⟩
  | cons d0 ds ih =>
    unfold foldSyms at h
    split at h
    · simp at h
    · rename_i b s1 heq
      obtain ⟨hacc, hrest⟩ := ih (acc && b) s1 h
      have hacc' : acc = true ∧ b = true := by simpa using hacc
      obtain ⟨ha, hb⟩ := hacc'
      subst ha; subst hb
      refine ⟨rfl, ?_⟩
      have hlen1 : s1.nss.length = st.nss.length := by
        have := (reach_autoImportSymbol U db false d0 st).length
        rw [heq] at this; exact this
      intro pre d post hd
      cases pre with
      | nil =>
        simp at hd
        obtain ⟨rfl, rfl⟩ := hd
        exact ⟨st, s1, rfl, heq, by simpa using h, rfl⟩
      | cons p0 pre =>
        simp at hd
        obtain ⟨rfl, rfl⟩ := hd
        obtain ⟨s, s2, hs, h1, h2, hl⟩ := hrest pre d post rfl
        refine ⟨s, s2, ?_, h1, h2, by rw [hl, hlen1]⟩
        simp only [List.cons_append, foldSyms, heq]
        simpa using hs

end

/-! ### a universe in which success means "resolved" -/

/-- one step of the world: executing an import statement, or evaluating `exists` -/
def WStep (U : Univ W) (w w' : W) : Prop :=
  (∃ i, w' = (U.exec w i).2) ∨ (∃ p, w' = (U.exists_ w p).2)

/-- Facts about CPython's import system that `C07_success_resolves` needs, as explicit hypotheses
    on the universe.  `inv w`: the world is well formed (an invariant of the import system);
    `known w o`: the object `o` exists in world `w`. -/
structure Sound (U : Univ W) (inv : W → Prop) (known : W → Obj → Prop) : Prop where
  inv_step : ∀ {w w'}, inv w → WStep U w w' → inv w'
  /-- sys.modules entries are never removed or replaced -/
  mods_mono : ∀ {w w' p o}, inv w → WStep U w w' → U.modOf w p = some o → U.modOf w' p = some o
  /-- attributes are never deleted or rebound -/
  attr_mono : ∀ {w w' o k v}, inv w → WStep U w w' → U.getattr w o k = some v → U.getattr w' o k = some v
  known_mono : ∀ {w w' o}, inv w → WStep U w w' → known w o → known w' o
  /-- a module that gets registered is a new object -/
  fresh : ∀ {w w' p o}, inv w → WStep U w w' → U.modOf w p = none → U.modOf w' p = some o → ¬ known w o
  known_attr : ∀ {w o k v}, inv w → known w o → U.getattr w o k = some v → known w v
  exec_known : ∀ {w i o}, inv w → (U.exec w i).1 = some o → known (U.exec w i).2 o
  /-- after `import a.b.c`, `a.b.c` is reachable from the object bound to `a` -/
  plain_sound : ∀ {w p o}, inv w → p ≠ [] → (U.exec w ⟨p, p⟩).1 = some o →
    walk U (U.exec w ⟨p, p⟩).2 o [p.headD []] p.tail ≠ .missingAttr
  /-- `from m import n as c` / `import m as c` does not yield the module registered as `c` -/
  alias_opaque : ∀ {w i o}, inv w → i.importAs ≠ i.fullname → (U.exec w i).1 = some o →
    U.modOf (U.exec w i).2 i.importAs ≠ some o

/-- every object bound in a namespace exists in the world -/
def NsKnown (known : W → Obj → Prop) (w : W) (nss : List NS) : Prop :=
  ∀ i k v, (getNs nss i).lookup k = some v → known w v

section
variable {U : Univ W} {inv : W → Prop} {known : W → Obj → Prop} (hS : Sound U inv known)
include hS

theorem walk_stable {w w' : W} (hinv : inv w) (hstep : WStep U w w') (o : Obj) (p : Dotted) (suf : List Name)
    (hk : known w o) (h : walk U w o p suf ≠ .missingAttr) : walk U w' o p suf ≠ .missingAttr := by
  induction suf generalizing o p with
  | nil => simp [walk]
  | cons part rest ih =>
    simp only [walk] at h ⊢
    by_cases hm : U.modOf w p = some o
    · have hm' := hS.mods_mono hinv hstep hm
      simp only [hm, hm', bne_self_eq_false, Bool.false_eq_true, if_false] at h ⊢
      cases hg : U.getattr w o part with
      | none => simp [hg] at h
      | some v =>
        rw [hg] at h
        rw [hS.attr_mono hinv hstep hg]
        exact ih v _ (hS.known_attr hinv hk hg) h
    · have hm' : U.modOf w' p ≠ some o := by
        intro hm'
        cases hw : U.modOf w p with
        | none => exact hS.fresh hinv hstep hw hm' hk
        | some o2 =>
          have := hS.mods_mono hinv hstep hw
          rw [hm'] at this
          simp at this
          rw [this] at hm
          exact hm hw
      simp [hm']

theorem settles_stable {w w' : W} (hinv : inv w) (hstep : WStep U w w') (d : Dotted) (ns : NS)
    (hk : ∀ k v, ns.lookup k = some v → known w v) (h : settles U w d ns = true) :
    settles U w' d ns = true := by
  cases d with
  | nil => simp [settles] at h
  | cons hd rest =>
    simp only [settles] at h ⊢
    cases hl : ns.lookup hd with
    | none => simp [hl] at h
    | some v =>
      simp only [hl] at h ⊢
      have h1 : walk U w v [hd] rest ≠ .missingAttr := by simpa using h
      have := walk_stable hS hinv hstep v [hd] rest (hk hd v hl) h1
      simpa using this

omit hS in
theorem settles_sub {w : W} {d : Dotted} {ns ns' : NS} (hsub : NS.Sub ns ns') (h : settles U w d ns = true) :
    settles U w d ns' = true := by
  cases d with
  | nil => simp [settles] at h
  | cons hd rest =>
    simp only [settles] at h ⊢
    cases hl : ns.lookup hd with
    | none => simp [hl] at h
    | some v => rw [hsub hd v hl]; simpa [hl] using h

omit hS in
theorem sni_false_frame {w : W} {nss nss' : List NS} {d : Dotted} (hf : Frame nss nss')
    (h : symbolNeedsImport U w nss d = false) : symbolNeedsImport U w nss' d = false := by
  obtain ⟨ns, hns, hs⟩ := (sni_false_iff U w nss d).1 h
  obtain ⟨i, hi, rfl⟩ := mem_getNs hns
  exact (sni_false_iff U w nss' d).2 ⟨getNs nss' i, getNs_mem (by rw [← hf.1]; exact hi), settles_sub (hf.2 i) hs⟩

theorem sni_false_step {w w' : W} (hinv : inv w) (hstep : WStep U w w') {nss : List NS} {d : Dotted}
    (hk : NsKnown known w nss) (h : symbolNeedsImport U w nss d = false) :
    symbolNeedsImport U w' nss d = false := by
  obtain ⟨ns, hns, hs⟩ := (sni_false_iff U w nss d).1 h
  obtain ⟨i, hi, rfl⟩ := mem_getNs hns
  exact (sni_false_iff U w' nss d).2 ⟨_, hns, settles_stable hS hinv hstep d _ (fun k v => hk i k v) hs⟩

theorem nsKnown_step {w w' : W} (hinv : inv w) (hstep : WStep U w w') {nss : List NS}
    (hk : NsKnown known w nss) : NsKnown known w' nss :=
  fun i k v h => hS.known_mono hinv hstep (hk i k v h)

/-- along a trace: the world stays well formed, every bound object exists, and "needs no import"
    is never un-done -/
theorem Reach.resolved_stable {P : State W → Import → Nat → Bool → Prop} {a b : State W}
    (h : Reach U P a b) (d : Dotted) :
    (inv a.w → inv b.w) ∧
    (inv a.w → NsKnown known a.w a.nss → NsKnown known b.w b.nss) ∧
    (inv a.w → NsKnown known a.w a.nss → symbolNeedsImport U a.w a.nss d = false →
      symbolNeedsImport U b.w b.nss d = false) := by
  induction h with
  | refl => exact ⟨id, fun _ h => h, fun _ _ h => h⟩
  | setAtt att _ ih => exact ih
  | doExists p _ ih =>
    obtain ⟨ih0, ih1, ih2⟩ := ih
    refine ⟨fun hi => hS.inv_step (ih0 hi) (Or.inr ⟨p, rfl⟩),
      fun hi hk => nsKnown_step hS (ih0 hi) (Or.inr ⟨p, rfl⟩) (ih1 hi hk), fun hi hk hs => ?_⟩
    exact sni_false_step hS (ih0 hi) (Or.inr ⟨p, rfl⟩) (ih1 hi hk) (ih2 hi hk hs)
  | @tryImp st1 imp tgt loop _ _ ih =>
    obtain ⟨ih0, ih1, ih2⟩ := ih
    have hs := tryImport_spec U imp tgt loop st1
    obtain ⟨_, hs⟩ := hs
    rcases hs with ⟨_, heq⟩ | ⟨rc, hok, _, hnss, hw, _, _, _⟩
    · rw [heq]; exact ⟨ih0, ih1, ih2⟩
    · have hstep : WStep U st1.w (tryImport U imp tgt loop st1).2.w := by rw [hw]; exact Or.inl ⟨imp, rfl⟩
      have hframe : Frame st1.nss (tryImport U imp tgt loop st1).2.nss :=
        (Reach.tryImp (U := U) (P := fun _ _ _ _ => True) imp tgt loop (.refl st1) trivial).frame
      have hkn : inv st1.w → NsKnown known st1.w st1.nss →
          NsKnown known (tryImport U imp tgt loop st1).2.w (tryImport U imp tgt loop st1).2.nss := by
        intro hinv hk i k v hl
        rw [hnss] at hl
        by_cases hF : rc.Failed
        · rw [hok.failed_same hF, hok.before_eq] at hl
          exact hS.known_mono hinv hstep (hk i k v hl)
        · cases hres : rc.res with
          | none => exact absurd (Or.inl hres) hF
          | some x =>
            have hex : (U.exec st1.w imp).1 = some x := by rw [← hok.res_eq, hres]
            rcases hok.added hF x hres with ⟨_, h2⟩ | ⟨_, h2⟩
            · rw [h2, hok.before_eq] at hl
              by_cases hold : (getNs st1.nss i).lookup k = some v
              · exact hS.known_mono hinv hstep (hk i k v hold)
              · -- the new binding
                have hv : v = x := by
                  by_cases hi : i = tgt
                  · subst hi
                    by_cases hlen : i < st1.nss.length
                    · rw [getNs_addAt_eq _ _ _ _ hlen, List.lookup_append] at hl
                      cases hlk : (getNs st1.nss i).lookup k with
                      | some y => rw [hlk] at hl; simp at hl; rw [hl] at hlk; exact absurd hlk hold
                      | none =>
                        rw [hlk] at hl
                        by_cases hkk : k = name0 imp
                        · subst hkk; simp [List.lookup_cons] at hl; exact hl.symm
                        · have : (k == name0 imp) = false := by simpa using hkk
                          simp [List.lookup_cons, this] at hl
                    · rw [addAt_of_ge _ _ _ _ (by omega)] at hl; exact absurd hl hold
                  · rw [getNs_addAt_ne _ _ _ _ _ hi] at hl; exact absurd hl hold
                rw [hv, hw]; exact hS.exec_known hinv hex
            · rw [h2, hok.before_eq] at hl
              exact hS.known_mono hinv hstep (hk i k v hl)
      refine ⟨fun hi => hS.inv_step (ih0 hi) hstep, fun hi hk => hkn (ih0 hi) (ih1 hi hk), fun hi hk hs => ?_⟩
      exact sni_false_frame hframe (sni_false_step hS (ih0 hi) hstep (ih1 hi hk) (ih2 hi hk hs))

end

end Pfb.AutoImp
