/-
  Pfb.AutoImp.PyWorld — a concrete `Univ`: CPython's import system over a synthetic
  universe of modules (the one harness/gen_c06.py writes to disk).  This is a model OF
  CPYTHON (importlib `_find_and_load`, `_handle_fromlist`, IMPORT_FROM,
  `importlib.util.find_spec`) and of `ModuleHandle.exists`; it is validated against the
  real interpreter by the correspondence check (return values, namespaces by identity,
  sys.modules and attribute tables, and the exact sequence of import-system events).
-/
import Pfb.AutoImp.Model
namespace Pfb.AutoImp

inductive Raise where
  | no | early | late
deriving DecidableEq, Repr

inductive Effect where
  /-- `m = sys.modules.get(target); if m is not None: setattr(m, attr, _T(tag))` -/
  | setattr (target : Dotted) (attr : Name) (tag : Str)
  /-- replace `sys.modules[target]` (if present) by a fresh module object tagged `tag` with the same `__path__` -/
  | sysmod (target : Dotted) (tag : Str)
  /-- `m = sys.modules.get(src); if m is not None: <attr> = m` — a member that IS a registered module -/
  | alias (attr : Name) (src : Dotted)
deriving Repr

structure ModSpec where
  path : Dotted
  pkg : Bool
  raises : Raise
  members : List Name
  effects : List Effect
deriving Repr

/-- what an allocated object is (its canonical descriptor on the harness side) -/
inductive Info where
  | none
  | ext (id : Nat)
  | module (path : Dotted) (pkg : Bool)
  | tagged (tag : Str) (pkg : Bool)
deriving Repr

inductive Event where
  | stmt (imp : Import)       -- top-level `__import__` call made by an exec'd import statement
  | probe (parent : Dotted)   -- `__import__(parent, fromlist=['__path__'])` made by importlib.util.find_spec
  | find (name : Dotted)      -- a module search that reaches sys.meta_path
deriving Repr

structure PyW where
  spec : List ModSpec
  next : Obj
  info : List (Obj × Info)
  mods : List (Dotted × Obj)            -- sys.modules (newest first)
  attrs : List ((Obj × Name) × Obj)     -- setattr log, newest first
  events : List Event
  existsCache : List (Dotted × Bool)    -- ModuleHandle(p).exists is a cached_property of a cached handle

namespace PyW

def empty (spec : List ModSpec) : PyW :=
  { spec := spec, next := 1, info := [(0, .none)], mods := [], attrs := [], events := [], existsCache := [] }

/-- the object `None` -/
def noneObj : Obj := 0

def alloc (w : PyW) (i : Info) : Obj × PyW :=
  (w.next, { w with next := w.next + 1, info := (w.next, i) :: w.info })

def modOf (w : PyW) (p : Dotted) : Option Obj := w.mods.lookup p

def getattr (w : PyW) (o : Obj) (n : Name) : Option Obj := w.attrs.lookup (o, n)

def setattr (w : PyW) (o : Obj) (n : Name) (v : Obj) : PyW :=
  { w with attrs := ((o, n), v) :: w.attrs }

def setMod (w : PyW) (p : Dotted) (o : Obj) : PyW :=
  { w with mods := (p, o) :: w.mods.filter (fun e => e.1 != p) }

def delMod (w : PyW) (p : Dotted) : PyW :=
  { w with mods := w.mods.filter (fun e => e.1 != p) }

def emit (w : PyW) (e : Event) : PyW := { w with events := w.events ++ [e] }

def isPkg (w : PyW) (o : Obj) : Bool :=
  match w.info.lookup o with
  | some (.module _ pkg) => pkg
  | some (.tagged _ pkg) => pkg
  | _ => false

def findSpec (w : PyW) (p : Dotted) : Option ModSpec := w.spec.find? (fun s => s.path == p)

def joinDot : Dotted → Str
  | [] => []
  | [x] => x
  | x :: y :: r => x ++ '.' :: joinDot (y :: r)

def runMembers (w : PyW) (path : Dotted) (o : Obj) : List Name → PyW
  | [] => w
  | m :: ms =>
    let a := w.alloc (.tagged (joinDot (path ++ [m])) false)
    runMembers (a.2.setattr o m a.1) path o ms

def runEffects (w : PyW) (self : Obj) : List Effect → PyW
  | [] => w
  | .setattr target attr tag :: es =>
    match w.modOf target with
    | none => runEffects w self es
    | some t =>
      let a := w.alloc (.tagged tag false)
      runEffects (a.2.setattr t attr a.1) self es
  | .sysmod target tag :: es =>
    match w.modOf target with
    | none => runEffects w self es
    | some t =>
      let a := w.alloc (.tagged tag (w.isPkg t))
      runEffects (a.2.setMod target a.1) self es
  | .alias attr src :: es =>
    match w.modOf src with
    | none => runEffects w self es
    | some m => runEffects (w.setattr self attr m) self es

/-- `parent_module.__path__` must exist (the parent is a package), else ModuleNotFoundError before any search -/
def parentOk (w : PyW) (path : Dotted) : Bool :=
  path.dropLast.isEmpty || (match w.modOf path.dropLast with | some po => w.isPkg po | none => false)

/-- `parent_module = sys.modules[parent]` is fetched AGAIN after the load (CPython 3.12);
    `setattr(parent_module, child, sys.modules[name])` -/
def attach (w : PyW) (path : Dotted) : PyW :=
  match (if path.dropLast.isEmpty then none else w.modOf path.dropLast), w.modOf path with
  | some po, some m => w.setattr po (path.getLast?.getD []) m
  | _, _ => w

/-- `_load_unlocked(spec)`: create and register the module, run its body, un-register it if the body raises -/
def loadFound (w : PyW) (path : Dotted) (s : ModSpec) : Bool × PyW :=
  let a := w.alloc (.module path s.pkg)
  let w2 := a.2.setMod path a.1
  if s.raises == .early then (false, w2.delMod path)
  else
    let w4 := runEffects (runMembers w2 path a.1 s.members) a.1 s.effects
    if s.raises == .late then (false, w4.delMod path) else (true, attach w4 path)

/-- `_find_and_load_unlocked(name)` for a name that is not in sys.modules and whose parent is.
    `true` = loaded. -/
def loadOne (w : PyW) (path : Dotted) : Bool × PyW :=
  if !parentOk w path then (false, w)
  else
    let w1 := w.emit (.find path)
    match w1.findSpec path with
    | none => (false, w1)
    | some s => loadFound w1 path s

/-- `_gcd_import(name)`: load every prefix that is not yet in sys.modules, in order -/
def importChainL (w : PyW) : List Dotted → Bool × PyW
  | [] => (true, w)
  | p :: ps =>
    if (w.modOf p).isSome then importChainL w ps
    else
      let r := loadOne w p
      if r.1 then importChainL r.2 ps else (false, r.2)

def importChain (w : PyW) (p : Dotted) : Bool × PyW :=
  if (w.modOf p).isSome then (true, w) else importChainL w (prefixes p)

/-- `from m import n [as c]` where `fullname = m.n` (at least two parts): what the name gets bound to -/
def execFrom (w : PyW) (fullname : Dotted) : Option Obj × PyW :=
  let m := fullname.dropLast
  let n := fullname.getLast?.getD []
  let r := importChain w m
  if !r.1 then (none, r.2)
  else
    match r.2.modOf m with
    | none => (none, r.2)
    | some mo =>
      match r.2.getattr mo n with
      | some v => (some v, r.2)
      | none =>
        -- `_handle_fromlist` (packages only): import the submodule m.n unless it is in sys.modules;
        -- "not found" is swallowed there and ends in IMPORT_FROM's ImportError, anything else propagates
        let r2 := if r.2.isPkg mo && (r.2.modOf fullname).isNone then loadOne r.2 fullname else (true, r.2)
        if !r2.1 then (none, r2.2)
        else
          -- IMPORT_FROM: getattr, falling back to sys.modules["m.n"]
          match r2.2.getattr mo n with
          | some v => (some v, r2.2)
          | none => (r2.2.modOf fullname, r2.2)

/-- executing `str(imp)` in a scratch namespace and reading `scratch[name0]` -/
def execStmt (w : PyW) (imp : Import) : Option Obj × PyW :=
  if imp.fullname.isEmpty then (none, w)
  else if imp.importAs == imp.fullname then
    -- `import a.b.c`: binds `a` to sys.modules['a']
    let r := importChain w imp.fullname
    if r.1 then (r.2.modOf (imp.fullname.take 1), r.2) else (none, r.2)
  else if imp.importAs.length != 1 then (none, w)        -- not a statement: SyntaxError
  else if imp.fullname.length == 1 then
    -- `import a as c`
    let r := importChain w imp.fullname
    if r.1 then (r.2.modOf imp.fullname, r.2) else (none, r.2)
  else execFrom w imp.fullname

def exec (w : PyW) (imp : Import) : Option Obj × PyW :=
  execStmt (w.emit (.stmt imp)) imp

/-- `ModuleHandle(p).exists` with `fuel ≥ p.length` -/
def existsN : Nat → PyW → Dotted → Bool × PyW
  | 0, w, _ => (false, w)
  | fuel + 1, w, p =>
    match w.existsCache.lookup p with
    | some b => (b, w)
    | none =>
      let cache := fun (b : Bool) (w : PyW) => (b, { w with existsCache := (p, b) :: w.existsCache })
      if (w.modOf p).isSome then cache true w
      else
        let parent := p.dropLast
        if parent.isEmpty then
          -- importlib.util.find_spec(top-level name): a search, nothing is imported
          let w := w.emit (.find p)
          cache (w.findSpec p).isSome w
        else
          let pe := existsN fuel w parent
          if !pe.1 then cache false pe.2
          else
            -- find_spec(p): `__import__(parent, fromlist=['__path__'])`, then search in parent.__path__
            let w := pe.2.emit (.probe parent)
            let r := importChain w parent
            if !r.1 then cache false r.2
            else
              match r.2.modOf parent with
              | none => cache false r.2
              | some po =>
                if !r.2.isPkg po then cache false r.2
                else
                  let w := r.2.emit (.find p)
                  cache (w.findSpec p).isSome w

def exists_ (w : PyW) (p : Dotted) : Bool × PyW := existsN (p.length + 1) w p

end PyW

/-- CPython's import system over the synthetic universe, as a `Univ`. -/
def pyUniv : Univ PyW :=
  { exec := PyW.exec, exists_ := PyW.exists_, modOf := PyW.modOf, getattr := PyW.getattr }

end Pfb.AutoImp
