/-
  Pfb.C03.Props — property theorems for C03 (rewriter output always compiles and
  is a fixed point), block-level part, over the model `Pfb.Blocks`.

  Proved for ALL states / imports:
  * C03_future_first — a `__future__` import only ever joins a block that
    already holds a `__future__` import; otherwise a new block is created
    (`select…` answers "no block"), and
  * C03_new_block_after_prologue — a new block is preceded, within the first
    block, by comment/blank statements and at most the docstring only; when the
    file starts with an import block it goes before everything.
  * C03_add_total — `add_import` can only fail with ImportAlreadyExistsError
    (no internal error), and after the D29 repair block selection is total.
  * C03_remove_unique_as — blocks built by `preprocess` never hold two non-star
    imports with the same local name, so `remove_import` cannot hit its
    "Multiple imports to remove" exception on them.
  "Compiles" and "tool(tool(x)) = tool(x)" are CPython's / whole-tool facts:
  decided by the direct oracle (compile, second pass) on the real code.
-/
import Pfb.Blocks.Lemmas
import Pfb.C01.Props
namespace Pfb.C03
open Pfb Pfb.Blocks Pfb.C01

theorem foldl_max_pos (l : List Nat) (a : Nat) (h : l.foldl max a ≠ 0) : a ≠ 0 ∨ ∃ x ∈ l, x ≠ 0 := by
  induction l generalizing a with
  | nil => left; simpa using h
  | cons x xs ih =>
    simp only [List.foldl_cons] at h
    rcases ih (max a x) h with h1 | ⟨y, hy, hy0⟩
    · by_cases ha : a = 0
      · right; exact ⟨x, by simp, by omega⟩
      · left; exact ha
    · right; exact ⟨y, by simp [hy], hy0⟩

/-- **C03_future_first** — if block selection returns a block for a `__future__`
    import, that block already holds an import sharing its first component,
    i.e. a `__future__` import. -/
theorem C03_future_first (st : St) (imp : Imp) (ml : Option Nat) (id : Nat)
    (h : selectBlock st imp ml = some id) (hf : isFuture imp = true) :
    ∃ s l e bl set, st.blocks.find? (fun b => blockId b = some id) = some (.imports id s l e bl set) ∧
      ∃ j ∈ set, 1 ≤ prefixMatch imp j := by
  unfold selectBlock at h
  split at h
  · cases h
  · rename_i k id' hp
    rw [hf] at h
    simp only [Bool.true_and] at h
    by_cases hk : k.1 = 0
    · simp [hk] at h
    · simp [hk] at h
      subst h
      have hm := pickBest_mem _ _ hp
      unfold candidates at hm
      simp only [List.mem_filterMap] at hm
      obtain ⟨x, _, hx⟩ := hm
      split at hx
      · rename_i i s l e bl set hfd
        by_cases hok : candOk imp bl l ml set = true
        · rw [if_pos hok] at hx
          simp at hx
          obtain ⟨hkey, rfl⟩ := hx
          have hb := List.find?_some hfd
          simp [blockId] at hb
          subst hb
          refine ⟨s, l, e, bl, set, hfd, ?_⟩
          have hk' : (set.map (prefixMatch imp)).foldl max 0 ≠ 0 := by
            rw [← hkey] at hk; exact hk
          rcases foldl_max_pos _ _ hk' with h0 | ⟨y, hy, hy0⟩
          · exact absurd rfl h0
          · simp at hy
            obtain ⟨j, hj, rfl⟩ := hy
            exact ⟨j, hj, by omega⟩
        · rw [if_neg hok] at hx; cases hx
      · cases hx

/-- **C03_future_joins_future_block** — the block selected for a `__future__` import holds a `from __future__`
    import already (not merely `import __future__`, which is an ordinary import and may follow code). -/
theorem C03_future_joins_future_block (st : St) (imp : Imp) (ml : Option Nat) (id : Nat)
    (h : selectBlock st imp ml = some id) (hf : isFuture imp = true) :
    ∃ s l e bl set, st.blocks.find? (fun b => blockId b = some id) = some (.imports id s l e bl set) ∧
      set.any isFuture = true := by
  unfold selectBlock at h
  split at h
  · cases h
  · rename_i k id' hp
    have hid : id' = id := by split at h <;> simp_all
    subst hid
    have hm := pickBest_mem _ _ hp
    unfold candidates at hm
    simp only [List.mem_filterMap] at hm
    obtain ⟨x, _, hx⟩ := hm
    split at hx
    · rename_i i s l e bl set hfd
      by_cases hok : candOk imp bl l ml set = true
      · rw [if_pos hok] at hx
        simp at hx
        obtain ⟨_, rfl⟩ := hx
        have hb := List.find?_some hfd
        simp [blockId] at hb
        subst hb
        refine ⟨s, l, e, bl, set, hfd, ?_⟩
        unfold candOk at hok
        rw [Bool.and_eq_true, hf] at hok
        simpa using hok.2
      · rw [if_neg hok] at hx; cases hx
    · cases hx

/-- sharing the first dotted component with a `__future__` import means being
    an import from `__future__` -/
theorem prefixMatch_pos_head (a b : Imp) (h : 1 ≤ prefixMatch a b) :
    (splitDots a.fullname).head? = (splitDots b.fullname).head? := by
  unfold prefixMatch at h
  generalize splitDots a.fullname = x at h ⊢
  generalize splitDots b.fullname = y at h ⊢
  cases x with
  | nil => simp [commonPrefixLen] at h
  | cons p ps =>
    cases y with
    | nil => simp [commonPrefixLen] at h
    | cons q qs =>
      simp only [commonPrefixLen] at h
      split at h
      · rename_i hpq; simp [hpq]
      · omega

/-- **C03_new_block_after_prologue** — what precedes a newly inserted block in the
    first block is comments/blank lines and at most the docstring. -/
theorem C03_new_block_after_prologue (ss : List Stmt) (ins : Bool) (rest nb : List Block) :
    ∃ pre post, insertAfterComments (.verbatim ss ins :: rest) nb = pre ++ nb ++ post ∧
      ∀ s ∈ origStmts pre, s.kind = .comment ∨ s.kind = .docstr := by
  obtain ⟨pre, post, heq, hcase⟩ := C01_insert_position ss ins rest nb
  refine ⟨pre, post, heq, ?_⟩
  have hp := prologue_take true ss
  rcases hcase with ⟨_, _, rfl, _⟩ | ⟨_, _, rfl, _⟩ | ⟨hk, rfl, _⟩ | ⟨hk, _, _, _, rfl, _⟩
  · simp [origStmts]
  · intro s hs
    cases ins
    · simp [origStmts] at hs; exact hp s (by simpa using hs)
    · simp [origStmts] at hs
  · intro s hs
    rw [hk, List.take_length] at hp
    cases ins
    · simp [origStmts] at hs; exact hp s hs
    · simp [origStmts] at hs
  · intro s hs
    rw [hk, List.take_length] at hp
    cases ins
    · simp [origStmts, sepBlock] at hs; exact hp s hs
    · simp [origStmts, sepBlock] at hs

/-- when the file starts with an import block the new block goes before everything -/
theorem C03_new_block_before_first_import (i s l e : Nat) (bl : Bool) (set : List Imp) (rest nb : List Block) :
    insertAfterComments (.imports i s l e bl set :: rest) nb = nb ++ (.imports i s l e bl set :: rest) := rfl

theorem findSome?_first {α β} (f : α → Option β) (l : List α) (v : β) (h : l.findSome? f = some v) :
    ∃ pre b post, l = pre ++ b :: post ∧ f b = some v ∧ ∀ c ∈ pre, f c = none := by
  induction l with
  | nil => simp at h
  | cons x xs ih =>
    rw [List.findSome?_cons] at h
    cases hx : f x with
    | some w =>
      rw [hx] at h; cases h
      exact ⟨[], x, xs, rfl, hx, by simp⟩
    | none =>
      rw [hx] at h
      obtain ⟨pre, b, post, hxs, hb, hpre⟩ := ih h
      refine ⟨x :: pre, b, post, by simp [hxs], hb, ?_⟩
      intro c hc
      rcases List.mem_cons.mp hc with rfl | hc
      · exact hx
      · exact hpre c hc

/-- **C03_future_block_takes_import** — when some import block holds a `__future__` import, no new block is
    created at all: the last such block is the target and the block list is unchanged, so nothing can end up in
    front of a `__future__` import (every block after the target is free of them). -/
theorem C03_future_block_takes_import (st : St) (fid : Nat) (h : leadingFuture st.blocks = some fid) :
    insertNewImportBlock st = (st, fid) ∧
    ∃ pre b post, st.blocks = pre ++ b :: post ∧ futureBlockId b = some fid ∧ ∀ c ∈ post, futureBlockId c = none := by
  constructor
  · unfold insertNewImportBlock; rw [h]
  · unfold leadingFuture at h
    obtain ⟨pre, b, post, hl, hb, hpre⟩ := findSome?_first _ _ _ h
    refine ⟨post.reverse, b, pre.reverse, ?_, hb, ?_⟩
    · have := congrArg List.reverse hl
      simpa using this
    · intro c hc
      exact hpre c (List.mem_reverse.mp hc)

/-- and conversely a new block is only created when no block holds a `__future__` import -/
theorem C03_new_block_only_without_leading_future (st st1 : St) (id : Nat)
    (h : insertNewImportBlock st = (st1, id)) (hne : st1.blocks ≠ st.blocks) :
    ∀ b ∈ st.blocks, futureBlockId b = none := by
  unfold insertNewImportBlock at h
  split at h
  · cases h; exact absurd rfl hne
  · rename_i hnone
    unfold leadingFuture at hnone
    intro b hb
    exact List.findSome?_eq_none_iff.mp hnone b (List.mem_reverse.mpr hb)

/-- **C03_add_total** — `add_import` has no failure mode other than
    ImportAlreadyExistsError (which the mandatory loop swallows). -/
theorem C03_add_total (st : St) (imp : Imp) (ml : Option Nat) (e : Err)
    (h : addImport st imp ml = .error e) : e = .importAlreadyExists :=
  addImport_exists_err st imp ml e h

/-! ### `remove_import` cannot hit "Multiple imports to remove" on preprocessed blocks -/

/-- no two non-star imports of the set share a local name -/
def UniqueAs (s : List Imp) : Prop :=
  s.Pairwise (fun a b => isStar a = false → isStar b = false → a.importAs ≠ b.importAs)

theorem addShadow_unique (acc : List Imp) (i : Imp) (h : UniqueAs acc) : UniqueAs (addShadow acc i) := by
  unfold addShadow UniqueAs at *
  split
  · rename_i hs
    split
    · exact h
    · rw [List.pairwise_append]
      refine ⟨h, by simp, ?_⟩
      intro a _ b hb _ sb
      simp at hb; subst hb
      simp [hs] at sb
  · rename_i hs
    split
    · rw [List.pairwise_map]
      apply List.Pairwise.imp _ h
      intro a b hab sa sb
      by_cases ca : (!isStar a && decide (a.importAs = i.importAs)) = true
      · by_cases cb : (!isStar b && decide (b.importAs = i.importAs)) = true
        · simp at ca cb
          exact absurd (ca.2.trans cb.2.symm) (hab ca.1 cb.1)
        · simp only [ca, cb, if_true] at sb ⊢
          simp at cb
          intro heq
          exact cb (by simpa using sb) heq.symm
      · by_cases cb : (!isStar b && decide (b.importAs = i.importAs)) = true
        · simp only [ca, cb, if_true] at sa ⊢
          simp at ca
          exact ca (by simpa using sa)
        · simp only [ca, cb] at sa sb ⊢
          exact hab (by simpa using sa) (by simpa using sb)
    · rename_i hany
      simp at hany
      rw [List.pairwise_append]
      refine ⟨h, by simp, ?_⟩
      intro a ha b hb sa _
      simp at hb; subst hb
      exact hany a ha sa

theorem fromImportsShadow_unique (is : List Imp) : UniqueAs (fromImportsShadow is) := by
  unfold fromImportsShadow
  have : ∀ acc, UniqueAs acc → UniqueAs (is.foldl addShadow acc) := by
    induction is with
    | nil => intro acc h; exact h
    | cons i is ih => intro acc h; exact ih _ (addShadow_unique acc i h)
  exact this [] (by unfold UniqueAs; simp)

theorem filter_unique_len (s : List Imp) (imp : Imp) (hns : isStar imp = false) (hu : UniqueAs s) :
    (s.filter (fun j => j.importAs = imp.importAs)).length ≤ 1 := by
  induction s with
  | nil => simp
  | cons a s ih =>
    unfold UniqueAs at hu ih
    rw [List.pairwise_cons] at hu
    have ih' := ih hu.2
    by_cases ha : a.importAs = imp.importAs
    · simp only [List.filter_cons, ha, decide_true, if_true, List.length_cons]
      have : s.filter (fun j => decide (j.importAs = imp.importAs)) = [] := by
        apply List.filter_eq_nil_iff.mpr
        intro b hb
        simp
        intro hbe
        have sa : isStar a = false := by unfold isStar at hns ⊢; rw [ha]; exact hns
        have sb : isStar b = false := by unfold isStar at hns ⊢; rw [hbe]; exact hns
        exact hu.1 b hb sa sb (ha.trans hbe.symm)
      rw [this]; simp
    · simp only [List.filter_cons, ha, decide_false]
      simpa using ih'

/-- **C03_remove_unique_as** — for a set built by `ImportSet(..., ignore_shadowed=True)`
    the lookup `by_import_as[imp.import_as]` done by `remove_import` for a
    non-star import yields at most one import: the "Multiple imports to remove"
    exception is unreachable on preprocessed blocks. -/
theorem C03_remove_unique_as (is : List Imp) (imp : Imp) (hns : isStar imp = false) :
    ((fromImportsShadow is).filter (fun j => j.importAs = imp.importAs)).length ≤ 1 :=
  filter_unique_len _ imp hns (fromImportsShadow_unique is)

/-! ### Non-vacuity -/

example : isFuture ⟨"__future__.annotations".toList, "annotations".toList⟩ = true := by decide
example : fromImportsShadow [⟨"a.x".toList, "x".toList⟩, ⟨"b.x".toList, "x".toList⟩, ⟨"m.*".toList, "*".toList⟩]
    = [⟨"b.x".toList, "x".toList⟩, ⟨"m.*".toList, "*".toList⟩] := by decide

end Pfb.C03
