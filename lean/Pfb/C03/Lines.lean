/-
  Pfb.C03.Lines — the import blocks of a (re)formatted file own disjoint line
  ranges, so `find_import_block_by_lineno` can never answer "ambiguous" on the
  second stage of tidy-imports (the D21 family cannot recur).

  Hypotheses, both facts about the first (reformat) pass that the second stage
  runs on: the statements' line numbers are consistent with their texts
  (`LinesOK`: each statement starts where the previous one's text ends) and every
  rendered import block ends with a newline (C11: every rendered statement does).
-/
import Pfb.Blocks.Lemmas
import Pfb.C01.Props
namespace Pfb.C03
open Pfb Pfb.Blocks

/-- each statement starts on the line where the text of the previous one ends -/
def LinesOK : List Stmt → Prop
  | [] => True
  | [_] => True
  | a :: b :: r => b.line = a.line + countNl a.text ∧ LinesOK (b :: r)

/-- line on which the text following `ss` starts, if `ss` starts on line `l0` -/
def endLineOf (l0 : Nat) (ss : List Stmt) : Nat := ((ss.head?.map (·.line)).getD l0) + countNl (stmtsText ss)

theorem countNl_append (a b : Str) : countNl (a ++ b) = countNl a + countNl b := by
  simp [countNl, List.count_append]

theorem stmtsText_cons (s : Stmt) (ss : List Stmt) : stmtsText (s :: ss) = s.text ++ stmtsText ss := by
  simp [stmtsText]

/-- in a consistent list, the statement after a prefix starts where the prefix's text ends -/
theorem linesOK_next (g : List Stmt) (x : Stmt) (rest : List Stmt) (hg : g ≠ [])
    (h : LinesOK (g ++ x :: rest)) :
    x.line = ((g.head?.map (·.line)).getD 0) + countNl (stmtsText g) ∧ LinesOK (x :: rest) := by
  induction g with
  | nil => exact absurd rfl hg
  | cons a g ih =>
    cases g with
    | nil =>
      simp only [List.cons_append, List.nil_append, LinesOK] at h
      refine ⟨?_, h.2⟩
      simp [stmtsText, h.1]
    | cons b g' =>
      simp only [List.cons_append, LinesOK] at h
      obtain ⟨hab, hrest⟩ := h
      have := ih (by simp) (by simpa using hrest)
      refine ⟨?_, this.2⟩
      rw [this.1]
      simp only [List.head?_cons, Option.map_some, Option.getD_some]
      rw [stmtsText_cons a, countNl_append, hab]
      omega

/-- ranges (start, last) of the import blocks, in order -/
def ranges : List Block → List (Nat × Nat)
  | [] => []
  | .imports _ s l _ _ _ :: bs => (s, l) :: ranges bs
  | _ :: bs => ranges bs

/-- every import run's text ends with a newline -/
def RunsEndNl (runs : List (Bool × List Stmt)) : Prop :=
  ∀ r ∈ runs, r.1 = true → (stmtsText r.2).getLast? = some '\n'

theorem countNl_pos_of_last (t : Str) (h : t.getLast? = some '\n') : 0 < countNl t := by
  have hmem : '\n' ∈ t := by
    have := List.mem_of_getLast? h
    exact this
  exact List.count_pos_iff.mpr hmem

theorem mkImportBlock_range (n : Nat) (s0 : Stmt) (g' : List Stmt)
    (hlast : (stmtsText (s0 :: g')).getLast? = some '\n') :
    ranges [mkImportBlock n (s0 :: g')] = [(s0.line, s0.line + countNl (stmtsText (s0 :: g')) - 1)] := by
  have hpos := countNl_pos_of_last _ hlast
  unfold mkImportBlock
  simp only [ranges]
  have hc : (stmtsText (s0 :: g')).getLast? = some '\n' ∧
      (Option.map (fun x => x.line) (s0 :: g').head?).getD 1 + countNl (stmtsText (s0 :: g'))
        > (Option.map (fun x => x.line) (s0 :: g').head?).getD 1 := ⟨hlast, by simp; omega⟩
  rw [if_pos hc]
  simp

theorem ranges_cons (b : Block) (bs : List Block) : ranges (b :: bs) = ranges [b] ++ ranges bs := by
  cases b <;> simp [ranges]

/-- all ranges of the blocks built from `runs` lie at or after line `lo`, are
    non-empty intervals and strictly increase -/
theorem ranges_sorted (runs : List (Bool × List Stmt)) (n lo : Nat)
    (hne : ∀ r ∈ runs, r.2 ≠ [])
    (hlines : LinesOK (runs.flatMap (·.2)))
    (hstart : ∀ s, (runs.flatMap (·.2)).head? = some s → lo ≤ s.line)
    (hnl : RunsEndNl runs) :
    (∀ r ∈ ranges (buildBlocks n runs).1, lo ≤ r.1 ∧ r.1 ≤ r.2) ∧
    (ranges (buildBlocks n runs).1).Pairwise (fun a b => a.2 < b.1) := by
  induction runs generalizing n lo with
  | nil => simp [buildBlocks, ranges]
  | cons r rs ih =>
    obtain ⟨b, g⟩ := r
    have hg : g ≠ [] := hne (b, g) (by simp)
    have hne' : ∀ r ∈ rs, r.2 ≠ [] := fun r hr => hne r (by simp [hr])
    have hnl' : RunsEndNl rs := fun r hr => hnl r (by simp [hr])
    -- the first statement of g
    obtain ⟨s0, g', rfl⟩ : ∃ s0 g', g = s0 :: g' := by
      cases g with
      | nil => exact absurd rfl hg
      | cons a as => exact ⟨a, as, rfl⟩
    have hs0 : lo ≤ s0.line := hstart s0 (by simp)
    -- where the rest starts
    let e := s0.line + countNl (stmtsText (s0 :: g'))
    have hrest : LinesOK (rs.flatMap (·.2)) ∧ ∀ s, (rs.flatMap (·.2)).head? = some s → e ≤ s.line := by
      cases hfl : rs.flatMap (·.2) with
      | nil => exact ⟨trivial, by simp⟩
      | cons x xs =>
        have h1 : LinesOK ((s0 :: g') ++ x :: xs) := by
          have := hlines
          simp only [List.flatMap_cons] at this
          rwa [hfl] at this
        have := linesOK_next (s0 :: g') x xs (by simp) h1
        refine ⟨this.2, ?_⟩
        intro s hs
        simp at hs; subst hs
        rw [this.1]; simp [e]
    cases b with
    | false =>
      simp only [buildBlocks, ranges]
      have := ih n e hne' hrest.1 hrest.2 hnl'
      refine ⟨?_, this.2⟩
      intro r hr
      have h1 := this.1 r hr
      have : lo ≤ e := by simp [e]; omega
      exact ⟨by omega, h1.2⟩
    | true =>
      have hlast : (stmtsText (s0 :: g')).getLast? = some '\n' := hnl (true, s0 :: g') (by simp) rfl
      have hpos := countNl_pos_of_last _ hlast
      simp only [buildBlocks]
      rw [ranges_cons, mkImportBlock_range n s0 g' hlast]
      have := ih (n + 1) e hne' hrest.1 hrest.2 hnl'
      constructor
      · intro r hr
        simp at hr
        rcases hr with rfl | hr
        · simp; exact ⟨hs0, by omega⟩
        · have h1 := this.1 r hr
          have : lo ≤ e := by simp [e]; omega
          exact ⟨by omega, h1.2⟩
      · simp only [List.singleton_append]
        rw [List.pairwise_cons]
        refine ⟨?_, this.2⟩
        intro r hr
        have h1 := this.1 r hr
        simp [e] at h1 ⊢
        omega

theorem filter_hasLine_ranges (bs : List Block) (ln : Nat) :
    (bs.filter (blockHasLine ln)).length = ((ranges bs).filter (fun r => r.1 ≤ ln && ln ≤ r.2)).length := by
  induction bs with
  | nil => rfl
  | cons b bs ih =>
    cases b with
    | verbatim ss ins => simp [blockHasLine, ranges, ih]
    | imports i s l e bl set =>
      simp only [List.filter_cons, blockHasLine, ranges]
      by_cases h : (decide (s ≤ ln) && decide (ln ≤ l)) = true
      · simp only [h, if_true, List.length_cons, ih]
      · simp only [h, Bool.false_eq_true, if_false]
        exact ih

theorem pairwise_disjoint_filter (rs : List (Nat × Nat)) (ln : Nat)
    (h1 : ∀ r ∈ rs, r.1 ≤ r.2) (h2 : rs.Pairwise (fun a b => a.2 < b.1)) :
    (rs.filter (fun r => r.1 ≤ ln && ln ≤ r.2)).length ≤ 1 := by
  induction rs with
  | nil => simp
  | cons r rs ih =>
    rw [List.pairwise_cons] at h2
    have ih' := ih (fun x hx => h1 x (by simp [hx])) h2.2
    by_cases hr : (r.1 ≤ ln && ln ≤ r.2) = true
    · simp only [List.filter_cons, hr, if_true, List.length_cons]
      have : rs.filter (fun r => r.1 ≤ ln && ln ≤ r.2) = [] := by
        apply List.filter_eq_nil_iff.mpr
        intro x hx
        have := h2.1 x hx
        simp at hr ⊢
        omega
      rw [this]; simp
    · simp only [List.filter_cons, hr]
      simpa using ih'

/-- **C03_no_ambiguity** — on a file whose statements' line numbers are consistent
    and whose import runs end with a newline (every output of the reformat pass),
    no line belongs to two import blocks: `remove_import` cannot raise
    LineNumberAmbiguousError. -/
theorem C03_no_ambiguity (ss : List Stmt) (hl : LinesOK ss)
    (hnl : RunsEndNl (groupRuns ss)) (ln : Nat) :
    ((preprocess ss).blocks.filter (blockHasLine ln)).length ≤ 1 := by
  unfold preprocess
  simp only []
  have hg := groupRuns_spec ss
  have hne : ∀ r ∈ groupRuns ss, r.2 ≠ [] := by
    intro r hr
    -- every run produced by groupRuns is non-empty
    have : ∀ (l : List Stmt), ∀ r ∈ groupRuns l, r.2 ≠ [] := by
      intro l
      induction l with
      | nil => simp [groupRuns]
      | cons s rest ih =>
        unfold groupRuns
        split
        · rename_i b g gs heq
          split
          · intro r hr
            simp at hr
            rcases hr with rfl | hr
            · simp
            · exact ih r (by rw [heq]; simp [hr])
          · intro r hr
            simp at hr
            rcases hr with rfl | rfl | hr
            · simp
            · exact ih _ (by rw [heq]; simp)
            · exact ih r (by rw [heq]; simp [hr])
        · intro r hr; simp at hr; subst hr; simp
    exact this ss r hr
  have hs := ranges_sorted (groupRuns ss) 0 0 hne (by rw [hg.2]; exact hl) (by intro s _; omega) hnl
  rw [filter_hasLine_ranges]
  exact pairwise_disjoint_filter _ ln (fun r hr => (hs.1 r hr).2) hs.2

/-- hence `remove_import` never answers LineNumberAmbiguousError on such a file -/
theorem C03_remove_not_ambiguous (ss : List Stmt) (hl : LinesOK ss) (hnl : RunsEndNl (groupRuns ss))
    (imp : Imp) (ln : Nat) :
    removeImport (preprocess ss) imp ln ≠ .error .lineNumberAmbiguous := by
  have h := C03_no_ambiguity ss hl hnl ln
  unfold removeImport
  generalize (preprocess ss).blocks.filter (blockHasLine ln) = l at h
  match l, h with
  | [], _ => simp
  | [b], _ =>
    simp only []
    split <;> simp
  | _ :: _ :: _, h => simp at h

/-! non-vacuity -/
example : LinesOK C01.exStmts := by simp [LinesOK, C01.exStmts, countNl]
example : RunsEndNl (groupRuns C01.exStmts) := by
  intro r hr _
  simp [groupRuns, C01.exStmts] at hr
  rcases hr with rfl | rfl | rfl <;> simp [stmtsText]

end Pfb.C03
