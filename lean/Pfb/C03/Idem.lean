/-
  Pfb.C03.Idem — block-level fixed-point theorems for C03 ("running the same tool with the same
  configuration on its own output returns that output unchanged"), over the models the drivers execute:
  `Pfb.Blocks` (preprocess / reformat / add_import / fixStage2), `Pfb.C11` (formatter) and
  `Pfb.Compose.Output` (output text).

  1. C03_shadow_idem, C03_shadow_perm — `ImportSet(…, ignore_shadowed=True)` applied to its own result, or to
     any permutation of a shadow-free set, changes nothing.
  2. C03_reformat_idem_blocks — the second `reformat` pass over the re-read output (`reparse`) builds the same
     blocks: same verbatim statements, same ids, same import sets.  C03_reformat_idem_text — with the C11
     formatter the second pass prints the identical text.
  3. C03_tidy_second_pass_noop — stage 2 of tidy with nothing to remove / add and the mandatory imports in place
     returns the preprocessed input.
  4. C03_add_then_present, C03_add_idem — after a successful `add_import` the same call selects the same block,
     finds the import there and raises ImportAlreadyExistsError.

  What `reparse` assumes (not proved here; C10 / the correspondence checks): the statement splitter reads the
  output text back as the verbatim statements followed/preceded by the import statements the formatter printed.
-/
import Pfb.C03.Props
import Pfb.Compose.Output
import Pfb.C11.Props
namespace Pfb.C03
open Pfb Pfb.Blocks
open Pfb.Compose (toC11 renderBlock renderBlocks output)

/-! ## 1. `ImportSet(…, ignore_shadowed=True)` is idempotent and order-insensitive on its own results -/

/-- two members of a set built with `ignore_shadowed`: different imports, and two non-star imports never
    bind the same local name -/
def ShadowRel (a b : Imp) : Prop :=
  a ≠ b ∧ (isStar a = false → isStar b = false → a.importAs ≠ b.importAs)

/-- a shadow-free list of imports: no repetition, no two non-star entries share `import_as` -/
def ShadowFree (s : List Imp) : Prop := s.Pairwise ShadowRel

theorem ShadowRel.symm {a b : Imp} (h : ShadowRel a b) : ShadowRel b a :=
  ⟨fun e => h.1 e.symm, fun hb ha e => h.2 ha hb e.symm⟩

theorem shadowFree_iff (s : List Imp) : ShadowFree s ↔ s.Nodup ∧ UniqueAs s := by
  unfold ShadowFree UniqueAs List.Nodup ShadowRel
  exact List.pairwise_and_iff

theorem ShadowFree.perm {s t : List Imp} (h : ShadowFree s) (p : t.Perm s) : ShadowFree t :=
  (p.pairwise_iff (fun {_ _} h => ShadowRel.symm h)).mpr h

theorem addShadow_of_free (acc : List Imp) (i : Imp) (h : ShadowFree (acc ++ [i])) :
    addShadow acc i = acc ++ [i] := by
  unfold ShadowFree at h
  rw [List.pairwise_append] at h
  obtain ⟨_, _, hrel⟩ := h
  have hr : ∀ a ∈ acc, ShadowRel a i := fun a ha => hrel a ha i (by simp)
  unfold addShadow
  split
  · rw [if_neg]
    intro hi
    exact (hr i hi).1 rfl
  · rename_i hs
    rw [if_neg]
    intro hany
    rw [List.any_eq_true] at hany
    obtain ⟨j, hj, hc⟩ := hany
    simp only [Bool.and_eq_true, Bool.not_eq_true', decide_eq_true_eq] at hc
    exact (hr j hj).2 hc.1 (by simpa using hs) hc.2

theorem foldl_addShadow_of_free (S acc : List Imp) (h : ShadowFree (acc ++ S)) :
    S.foldl addShadow acc = acc ++ S := by
  induction S generalizing acc with
  | nil => simp
  | cons i S ih =>
    have h1 : ShadowFree (acc ++ [i]) := by
      unfold ShadowFree at h ⊢
      have : List.Sublist (acc ++ [i]) (acc ++ i :: S) := by
        apply List.Sublist.append_left
        simp
      exact h.sublist this
    rw [List.foldl_cons, addShadow_of_free acc i h1, ih (acc ++ [i]) (by simpa using h)]
    simp

/-- on a shadow-free list `ImportSet(ignore_shadowed=True)` changes nothing, not even the order -/
theorem fromImportsShadow_of_free (S : List Imp) (h : ShadowFree S) : fromImportsShadow S = S := by
  unfold fromImportsShadow
  simpa using foldl_addShadow_of_free S [] (by simpa using h)

theorem addShadow_free (acc : List Imp) (i : Imp) (h : ShadowFree acc) : ShadowFree (addShadow acc i) := by
  unfold addShadow ShadowFree at *
  split
  · rename_i hs
    split
    · exact h
    · rename_i hni
      rw [List.pairwise_append]
      refine ⟨h, by simp, ?_⟩
      intro a ha b hb
      simp at hb; subst hb
      refine ⟨fun e => hni (e ▸ ha), ?_⟩
      intro _ sb
      simp [hs] at sb
  · rename_i hs
    split
    · rw [List.pairwise_map]
      apply List.Pairwise.imp _ h
      intro a b hab
      by_cases ca : (!isStar a && decide (a.importAs = i.importAs)) = true
      · by_cases cb : (!isStar b && decide (b.importAs = i.importAs)) = true
        · simp at ca cb
          exact absurd (ca.2.trans cb.2.symm) (hab.2 ca.1 cb.1)
        · rw [if_pos ca, if_neg cb]
          simp at ca cb
          refine ⟨?_, ?_⟩
          · intro e; subst e
            exact cb (by simpa using hs) rfl
          · intro _ sb heq
            exact cb sb heq.symm
      · by_cases cb : (!isStar b && decide (b.importAs = i.importAs)) = true
        · rw [if_neg ca, if_pos cb]
          simp at ca cb
          refine ⟨?_, ?_⟩
          · intro e; subst e
            exact ca (by simpa using hs) rfl
          · intro sa _ heq
            exact ca sa heq
        · rw [if_neg ca, if_neg cb]
          exact hab
    · rename_i hany
      simp at hany
      rw [List.pairwise_append]
      refine ⟨h, by simp, ?_⟩
      intro a ha b hb
      simp at hb; subst hb
      refine ⟨?_, fun sa _ => hany a ha sa⟩
      intro e; subst e
      exact hany a ha (by simpa using hs) rfl

theorem fromImportsShadow_free (L : List Imp) : ShadowFree (fromImportsShadow L) := by
  unfold fromImportsShadow
  have : ∀ acc, ShadowFree acc → ShadowFree (L.foldl addShadow acc) := by
    induction L with
    | nil => intro acc h; exact h
    | cons i is ih => intro acc h; exact ih _ (addShadow_free acc i h)
  exact this [] (by unfold ShadowFree; simp)

/-- **C03_shadow_idem** — `ImportSet(ImportSet(L, ignore_shadowed=True), ignore_shadowed=True)` is the same
    list, for every list of imports `L`. -/
theorem C03_shadow_idem (L : List Imp) : fromImportsShadow (fromImportsShadow L) = fromImportsShadow L :=
  fromImportsShadow_of_free _ (fromImportsShadow_free L)

/-- **C03_shadow_perm** — reading a shadow-free set back in any order `P` denotes the same set:
    nothing is shadowed or dropped (`fromImportsShadow P = P`), so the result is a permutation of `S`. -/
theorem C03_shadow_perm (S P : List Imp) (hS : ShadowFree S) (hP : P.Perm S) :
    fromImportsShadow P = P ∧ (fromImportsShadow P).Perm (fromImportsShadow S) := by
  have h1 := fromImportsShadow_of_free P (hS.perm hP)
  rw [h1, fromImportsShadow_of_free S hS]
  exact ⟨rfl, hP⟩


/-! ## 2. the second `reformat` pass computes the same block structure -/

/-- the formatter seen from the block level: the import statements printed for a set — for each statement its
    text and the imports it denotes (`ImportSet.get_statements` + `ImportStatement.pretty_print`) -/
abbrev Fmt := List Imp → List (Str × List Imp)

/-- the statements denote exactly the imports of the set (in any order, nothing lost or repeated) -/
def FmtOK (f : Fmt) (set : List Imp) : Prop := ((f set).flatMap (·.2)).Perm set

/-- `FilePos` after reading `t` from position `pos` = (line, column) -/
def advance (pos : Nat × Nat) (t : Str) : Nat × Nat :=
  (pos.1 + countNl t,
   if '\n' ∈ t then (t.reverse.takeWhile (· ≠ '\n')).length + 1 else pos.2 + t.length)

/-- the statements of one output block as the statement splitter and classifier see its text (positions are
    filled in by `relocate`) -/
def fmtStmts (f : Fmt) (set : List Imp) : List Stmt := (f set).map fun x => ⟨x.1, .other, true, x.2, 0, 0⟩

def blockStmts (f : Fmt) : Block → List Stmt
  | .verbatim ss _ => ss
  | .imports _ _ _ _ _ set => fmtStmts f set

/-- positions recomputed from the texts, starting at `pos` -/
def relocate : Nat × Nat → List Stmt → List Stmt
  | _, [] => []
  | pos, s :: ss => { s with line := pos.1, col := pos.2 } :: relocate (advance pos s.text) ss

/-- the output blocks of a pass read back as the statement list of the next pass -/
def reparse (f : Fmt) (bs : List Block) : List Stmt := relocate (1, 1) (bs.flatMap (blockStmts f))

/-- a statement without its position -/
def strip (s : Stmt) : Stmt := { s with line := 0, col := 0 }

/-- same block up to positions: verbatim blocks hold the same statements (text, kind, imports), import blocks
    have the same id and the same import set (as a set: a permutation) -/
inductive BlockSim : Block → Block → Prop
  | verb (ss' ss : List Stmt) (ins : Bool) (h : ss'.map strip = ss.map strip) :
      BlockSim (.verbatim ss' ins) (.verbatim ss ins)
  | imps (id s' l' e' : Nat) (b' : Bool) (set' : List Imp) (s l e : Nat) (b : Bool) (set : List Imp)
      (h : set'.Perm set) : BlockSim (.imports id s' l' e' b' set') (.imports id s l e b set)


/-- block lists of equal length that are similar block by block -/
def BlocksSim : List Block → List Block → Prop
  | [], [] => True
  | b' :: bs', b :: bs => BlockSim b' b ∧ BlocksSim bs' bs
  | _, _ => False

def stripRun (r : Bool × List Stmt) : Bool × List Stmt := (r.1, r.2.map strip)

theorem groupRuns_map (g : Stmt → Stmt) (hg : ∀ s, (g s).isImport = s.isImport) (l : List Stmt) :
    groupRuns (l.map g) = (groupRuns l).map (fun r => (r.1, r.2.map g)) := by
  induction l with
  | nil => rfl
  | cons s rest ih =>
    rw [List.map_cons, groupRuns, ih, groupRuns]
    cases h : groupRuns rest with
    | nil => simp [hg]
    | cons r rs =>
      obtain ⟨b, g'⟩ := r
      simp only [List.map_cons, hg]
      split <;> simp

theorem relocate_strip (pos : Nat × Nat) (l : List Stmt) : (relocate pos l).map strip = l.map strip := by
  induction l generalizing pos with
  | nil => rfl
  | cons s ss ih => simp [relocate, ih, strip]

theorem strip_imports (l : List Stmt) : (l.map strip).flatMap (·.imports) = l.flatMap (·.imports) := by
  induction l with
  | nil => rfl
  | cons s ss ih => simpa [strip] using ih

/-- a run: non-empty, all statements on the run's side of `is_import` -/
def RunOK (r : Bool × List Stmt) : Prop := r.2 ≠ [] ∧ ∀ s ∈ r.2, s.isImport = r.1

/-- what `groupby(is_import)` produces: non-empty homogeneous runs with alternating flags -/
def Canon : List (Bool × List Stmt) → Prop
  | [] => True
  | r :: rs => RunOK r ∧ (∀ r', rs.head? = some r' → r.1 ≠ r'.1) ∧ Canon rs

theorem groupRuns_prepend (g : List Stmt) (b : Bool) (hne : g ≠ []) (hall : ∀ s ∈ g, s.isImport = b)
    (rest : List Stmt) (hh : ∀ r', (groupRuns rest).head? = some r' → b ≠ r'.1) :
    groupRuns (g ++ rest) = (b, g) :: groupRuns rest := by
  induction g with
  | nil => exact absurd rfl hne
  | cons s g' ih =>
    have hs : s.isImport = b := hall s (by simp)
    cases g' with
    | nil =>
      simp only [List.cons_append, List.nil_append]
      rw [groupRuns]
      cases h : groupRuns rest with
      | nil => simp [hs]
      | cons r rs =>
        obtain ⟨b', x⟩ := r
        have := hh (b', x) (by simp [h])
        simp only []
        rw [if_neg (by rw [hs]; exact fun e => this e.symm), hs]
    | cons s2 g'' =>
      have := ih (by simp) (fun x hx => hall x (by simp [hx]))
      rw [List.cons_append, groupRuns, this]
      simp [hs]

theorem groupRuns_canon (runs : List (Bool × List Stmt)) (h : Canon runs) :
    groupRuns (runs.flatMap (·.2)) = runs := by
  induction runs with
  | nil => rfl
  | cons r rs ih =>
    obtain ⟨hr, hh, hc⟩ := h
    rw [List.flatMap_cons, groupRuns_prepend r.2 r.1 hr.1 hr.2 _ (by rw [ih hc]; exact hh), ih hc]

theorem canon_groupRuns (ss : List Stmt) : Canon (groupRuns ss) := by
  induction ss with
  | nil => trivial
  | cons s rest ih =>
    rw [groupRuns]
    cases h : groupRuns rest with
    | nil => exact ⟨⟨by simp, by simp⟩, by simp, trivial⟩
    | cons r rs =>
      obtain ⟨b, g⟩ := r
      rw [h] at ih
      obtain ⟨hr, hh, hc⟩ := ih
      simp only []
      split
      · rename_i hb
        refine ⟨⟨by simp, ?_⟩, hh, hc⟩
        intro x hx
        simp at hx
        rcases hx with rfl | hx
        · exact hb.symm
        · exact hr.2 x hx
      · rename_i hb
        refine ⟨⟨by simp, by simp⟩, ?_, hr, hh, hc⟩
        intro r' hr'
        simp at hr'; subst hr'
        exact fun e => hb e.symm

/-- what the second pass reads for one run of the first pass -/
def reRun (f : Fmt) (r : Bool × List Stmt) : Bool × List Stmt :=
  if r.1 then (true, fmtStmts f (fromImportsShadow (r.2.flatMap (·.imports)))) else r

theorem reRun_fst (f : Fmt) (r : Bool × List Stmt) : (reRun f r).1 = r.1 := by
  unfold reRun; split <;> simp_all

theorem flatMap_blockStmts_buildBlocks (f : Fmt) (n : Nat) (runs : List (Bool × List Stmt)) :
    (buildBlocks n runs).1.flatMap (blockStmts f) = (runs.map (reRun f)).flatMap (·.2) := by
  induction runs generalizing n with
  | nil => rfl
  | cons r rs ih =>
    obtain ⟨b, g⟩ := r
    cases b with
    | true => simp [buildBlocks, blockStmts, mkImportBlock, reRun, ih]
    | false => simp [buildBlocks, blockStmts, reRun, ih]

theorem canon_reRun (f : Fmt) (runs : List (Bool × List Stmt)) (h : Canon runs)
    (hf : ∀ r ∈ runs, r.1 = true → f (fromImportsShadow (r.2.flatMap (·.imports))) ≠ []) :
    Canon (runs.map (reRun f)) := by
  induction runs with
  | nil => trivial
  | cons r rs ih =>
    obtain ⟨hr, hh, hc⟩ := h
    refine ⟨?_, ?_, ih hc (fun r' hr' => hf r' (by simp [hr']))⟩
    · unfold reRun
      split
      · rename_i h1
        refine ⟨?_, ?_⟩
        · simpa [fmtStmts] using hf r (by simp) h1
        · intro s hs
          simp [fmtStmts] at hs
          obtain ⟨a, b, _, rfl⟩ := hs
          rfl
      · exact hr
    · intro r' hr'
      rw [reRun_fst]
      cases rs with
      | nil => simp at hr'
      | cons r2 rs2 =>
        simp at hr'; subst hr'
        rw [reRun_fst]
        exact hh r2 (by simp)

theorem addShadow_ne_nil (acc : List Imp) (i : Imp) : addShadow acc i ≠ [] := by
  unfold addShadow
  split
  · split
    · rename_i h; intro e; rw [e] at h; simp at h
    · simp
  · split
    · rename_i h
      intro e
      rw [List.map_eq_nil_iff] at e
      rw [e] at h; simp at h
    · simp

theorem fromImportsShadow_ne_nil (L : List Imp) (h : L ≠ []) : fromImportsShadow L ≠ [] := by
  unfold fromImportsShadow
  have : ∀ (L : List Imp) acc, acc ≠ [] → L.foldl addShadow acc ≠ [] := by
    intro L
    induction L with
    | nil => intro acc h; exact h
    | cons i is ih => intro acc _; exact ih _ (addShadow_ne_nil acc i)
  cases L with
  | nil => exact absurd rfl h
  | cons i is => exact this is _ (addShadow_ne_nil [] i)

theorem buildBlocks_sim (f : Fmt) (runs runs' : List (Bool × List Stmt)) (n : Nat)
    (h : runs'.map stripRun = (runs.map (reRun f)).map stripRun)
    (hf : ∀ r ∈ runs, r.1 = true → FmtOK f (fromImportsShadow (r.2.flatMap (·.imports)))) :
    BlocksSim (buildBlocks n runs').1 (buildBlocks n runs).1 ∧
      (buildBlocks n runs').2 = (buildBlocks n runs).2 := by
  induction runs generalizing runs' n with
  | nil =>
    simp at h; subst h
    exact ⟨trivial, rfl⟩
  | cons r rs ih =>
    cases runs' with
    | nil => simp at h
    | cons r' rs' =>
      simp only [List.map_cons, List.cons.injEq] at h
      obtain ⟨h1, h2⟩ := h
      have hf' : ∀ r ∈ rs, r.1 = true → FmtOK f (fromImportsShadow (r.2.flatMap (·.imports))) :=
        fun r hr => hf r (by simp [hr])
      obtain ⟨b, g⟩ := r
      obtain ⟨b', g'⟩ := r'
      cases b with
      | false =>
        simp [stripRun, reRun] at h1
        obtain ⟨rfl, hg⟩ := h1
        have := ih rs' n h2 hf'
        simp only [buildBlocks]
        exact ⟨⟨.verb g' g false hg, this.1⟩, this.2⟩
      | true =>
        simp [stripRun, reRun] at h1
        obtain ⟨rfl, hg⟩ := h1
        have := ih rs' (n + 1) h2 hf'
        simp only [buildBlocks]
        refine ⟨⟨?_, this.1⟩, by rw [this.2]⟩
        unfold mkImportBlock
        apply BlockSim.imps
        have hS := hf (true, g) (by simp) rfl
        have hS : ((f (fromImportsShadow (g.flatMap (·.imports)))).flatMap (·.2)).Perm
            (fromImportsShadow (g.flatMap (·.imports))) := hS
        have hP : g'.flatMap (·.imports) = (f (fromImportsShadow (g.flatMap (·.imports)))).flatMap (·.2) := by
          rw [← strip_imports g', hg, strip_imports]
          simp [fmtStmts, List.flatMap_map]
        rw [hP]
        have := C03_shadow_perm _ _ (fromImportsShadow_free (g.flatMap (·.imports))) hS
        rw [this.1]
        exact hS


theorem mem_buildBlocks_of_run (runs : List (Bool × List Stmt)) (n : Nat) (g : List Stmt)
    (h : (true, g) ∈ runs) : ∃ id, mkImportBlock id g ∈ (buildBlocks n runs).1 := by
  induction runs generalizing n with
  | nil => simp at h
  | cons r rs ih =>
    obtain ⟨b, g0⟩ := r
    simp only [List.mem_cons] at h
    cases b with
    | true =>
      simp only [buildBlocks]
      rcases h with h | h
      · injection h with _ h; subst h; exact ⟨n, by simp⟩
      · obtain ⟨id, hid⟩ := ih (n + 1) h
        exact ⟨id, by simp [hid]⟩
    | false =>
      simp only [buildBlocks]
      rcases h with h | h
      · injection h with h; cases h
      · obtain ⟨id, hid⟩ := ih n h
        exact ⟨id, by simp [hid]⟩

/-- **C03_reformat_idem_blocks** — block-level fixed point of `reformat_import_statements`.  Read the output
    blocks of the first pass back as statements (`reparse`: verbatim statements as they are, each import block as
    the statements the formatter `f` prints for its set, positions recomputed from the texts) and run the pass
    again: the second pass builds the same sequence of blocks — the same verbatim statements in the same blocks,
    and for every import block the same id and the same import set (a permutation of it, which `C11_set_only`
    renders as the identical text) — with the same `import_blocks` order.
    Hypotheses: every import statement of the input holds at least one import, and for the set of every import
    block the statements of `f` denote exactly that set (`getStatements_imports` for the real formatter). -/
theorem C03_reformat_idem_blocks (f : Fmt) (ss : List Stmt)
    (hne : ∀ s ∈ ss, s.isImport = true → s.imports ≠ [])
    (hf : ∀ b ∈ (reformat ss).blocks, blockId b ≠ none → FmtOK f (setOf b)) :
    BlocksSim (reformat (reparse f (reformat ss).blocks)).blocks (reformat ss).blocks ∧
    (reformat (reparse f (reformat ss).blocks)).order = (reformat ss).order ∧
    (reformat (reparse f (reformat ss).blocks)).nextId = (reformat ss).nextId := by
  have hspec := groupRuns_spec ss
  have hcan := canon_groupRuns ss
  -- the formatter is exact on every import run of the input
  have hfr : ∀ r ∈ groupRuns ss, r.1 = true → FmtOK f (fromImportsShadow (r.2.flatMap (·.imports))) := by
    intro r hr h1
    obtain ⟨b, g⟩ := r
    simp only [] at h1; subst h1
    obtain ⟨id, hid⟩ := mem_buildBlocks_of_run (groupRuns ss) 0 g hr
    have := hf (mkImportBlock id g) (by simpa [reformat, preprocess] using hid) (by simp [mkImportBlock, blockId])
    simpa [mkImportBlock, setOf] using this
  -- every import run holds at least one import, so the formatter prints at least one statement for it
  have hmem : ∀ r ∈ groupRuns ss, ∀ s ∈ r.2, s ∈ ss := by
    intro r hr s hs
    rw [← hspec.2]
    exact List.mem_flatMap.mpr ⟨r, hr, hs⟩
  have hrunok : ∀ (runs : List (Bool × List Stmt)), Canon runs → ∀ r ∈ runs, RunOK r := by
    intro runs
    induction runs with
    | nil => intro _ r hr; simp at hr
    | cons x xs ih =>
      intro hc r hr
      simp at hr
      rcases hr with rfl | hr
      · exact hc.1
      · exact ih hc.2.2 r hr
  have hfn : ∀ r ∈ groupRuns ss, r.1 = true → f (fromImportsShadow (r.2.flatMap (·.imports))) ≠ [] := by
    intro r hr h1 he
    have hok := hrunok _ hcan r hr
    have hP := hfr r hr h1
    unfold FmtOK at hP
    rw [he] at hP
    have hnil : fromImportsShadow (r.2.flatMap (·.imports)) = [] := by simpa using hP.symm
    refine fromImportsShadow_ne_nil _ ?_ hnil
    obtain ⟨s, g', hg⟩ := List.exists_cons_of_ne_nil hok.1
    have hs : s ∈ r.2 := by rw [hg]; simp
    have := hne s (hmem r hr s hs) (by rw [hok.2 s hs, h1])
    rw [hg]
    simp [this]
  -- the runs the second pass sees
  have hruns : (groupRuns (reparse f (reformat ss).blocks)).map stripRun
      = ((groupRuns ss).map (reRun f)).map stripRun := by
    have e1 := groupRuns_map strip (fun _ => rfl) (reparse f (reformat ss).blocks)
    have e2 := groupRuns_map strip (fun _ => rfl) ((reformat ss).blocks.flatMap (blockStmts f))
    unfold reparse at e1 ⊢
    rw [relocate_strip, e2] at e1
    have e3 : (reformat ss).blocks.flatMap (blockStmts f) = ((groupRuns ss).map (reRun f)).flatMap (·.2) := by
      simp only [reformat, preprocess]
      exact flatMap_blockStmts_buildBlocks f 0 (groupRuns ss)
    rw [e3, groupRuns_canon _ (canon_reRun f _ hcan hfn)] at e1
    rw [e3]
    exact e1.symm
  have := buildBlocks_sim f (groupRuns ss) _ 0 hruns hfr
  simp only [reformat, preprocess] at this ⊢
  exact ⟨this.1, this.2, by rw [this.2]⟩

/-! ## 2b. the real formatter (`Pfb.C11`) as `Fmt`; the second pass prints the same text -/

def ofC11 (i : C11.Imp) : Imp := ⟨i.fullname, i.importAs⟩

theorem ofC11_toC11 (i : Imp) : ofC11 (toC11 i) = i := rfl

/-- the statements `ImportSet.pretty_print` emits for a set: text (as `pretty` prints it) and imports of each -/
def c11Fmt (p : C11.Params) : Fmt := fun set =>
  match C11.getStatements (C11.dedup (set.map toC11)) p.sepFrom with
  | .error _ => []
  | .ok sts =>
    match C11.importColumn sts p (max 1 p.fromSpaces) with
    | .error _ => []
    | .ok col => sts.map fun st =>
        (((if C11.doAlign p st then st.pretty p col (max 1 p.fromSpaces) else st.pretty p none 1).toOption).getD [],
         st.imports.map ofC11)

/-- `getStatements_imports` at the block level: when the set is printed at all and its names are well formed,
    the statements printed denote exactly the set -/
theorem c11Fmt_ok (p : C11.Params) (set : List Imp) (t : Str) (hnd : set.Nodup)
    (hwf : ∀ i ∈ set, C11.wfName i.fullname = true)
    (hp : C11.pretty (set.map toC11) p = .ok t) : FmtOK (c11Fmt p) set := by
  obtain ⟨stmts, col, h1, h2, _⟩ := C11.C11_roundtrip_core _ p t hp
  have hnd' : (set.map toC11).Nodup := by
    unfold List.Nodup at *
    rw [List.pairwise_map]
    exact hnd.imp (fun {a b} h e => h (by have := congrArg ofC11 e; simpa [ofC11_toC11] using this))
  have hperm := C11.getStatements_imports _ _ _ h1 (by
    intro i hi
    rw [C11.mem_dedup] at hi
    obtain ⟨j, hj, rfl⟩ := List.mem_map.mp hi
    exact C11.fromSplit_split _ (hwf j hj))
  rw [C11.dedup_of_nodup _ hnd'] at hperm h1
  unfold FmtOK c11Fmt
  rw [C11.dedup_of_nodup _ hnd']
  simp only [h1, h2]
  have := hperm.map ofC11
  rw [List.map_map] at this
  have hid : (ofC11 ∘ toC11) = id := by funext i; rfl
  rw [hid, List.map_id] at this
  rw [List.flatMap_map]
  simpa [List.map_flatMap] using this

theorem stmtsText_strip (a b : List Stmt) (h : a.map strip = b.map strip) : stmtsText a = stmtsText b := by
  have : ∀ l : List Stmt, stmtsText l = ((l.map strip).map (·.text)).flatten := by
    intro l; simp [stmtsText, List.map_map, Function.comp_def, strip]
  rw [this a, this b, h]

/-- similar blocks are printed alike (`C11_set_only`), whenever no import block prints as the empty text -/
theorem renderBlock_sim (st' st : St) (p : C11.Params) (b' b : Block) (h : BlockSim b' b)
    (hne : blockId b ≠ none → C11.pretty ((setOf b).map toC11) p ≠ .ok []) :
    renderBlock st' p b' = renderBlock st p b := by
  cases h with
  | verb ss' ss ins h => simp only [renderBlock]; rw [stmtsText_strip _ _ h]
  | imps id s' l' e' b' set' s l e b set h =>
    have hp : C11.pretty (set'.map toC11) p = C11.pretty (set.map toC11) p := by
      apply C11.C11_set_only
      intro i
      simp only [List.mem_map]
      constructor
      · rintro ⟨j, hj, rfl⟩; exact ⟨j, h.mem_iff.mp hj, rfl⟩
      · rintro ⟨j, hj, rfl⟩; exact ⟨j, h.mem_iff.mpr hj, rfl⟩
    simp only [renderBlock]
    rw [hp]
    have := hne (by simp [blockId])
    simp only [setOf] at this
    cases hq : C11.pretty (set.map toC11) p with
    | error e => rfl
    | ok t =>
      have ht : t ≠ [] := by intro e; subst e; exact this hq
      simp [ht]

theorem renderBlocks_sim (st' st : St) (p : C11.Params) (bs' bs : List Block) (h : BlocksSim bs' bs)
    (hne : ∀ b ∈ bs, blockId b ≠ none → C11.pretty ((setOf b).map toC11) p ≠ .ok []) :
    renderBlocks st' p bs' = renderBlocks st p bs := by
  induction bs generalizing bs' with
  | nil =>
    cases bs' with
    | nil => rfl
    | cons => exact absurd h (by simp [BlocksSim])
  | cons b bs ih =>
    cases bs' with
    | nil => exact absurd h (by simp [BlocksSim])
    | cons b' bs' =>
      obtain ⟨h1, h2⟩ := h
      simp only [renderBlocks]
      rw [renderBlock_sim st' st p b' b h1 (hne b (by simp)), ih bs' h2 (fun x hx => hne x (by simp [hx]))]

theorem buildBlocks_imports_mem (runs : List (Bool × List Stmt)) (n : Nat) (b : Block)
    (hb : b ∈ (buildBlocks n runs).1) (hid : blockId b ≠ none) :
    ∃ id g, (true, g) ∈ runs ∧ b = mkImportBlock id g := by
  induction runs generalizing n with
  | nil => simp [buildBlocks] at hb
  | cons r rs ih =>
    obtain ⟨f, g⟩ := r
    cases f with
    | true =>
      simp only [buildBlocks, List.mem_cons] at hb
      rcases hb with rfl | hb
      · exact ⟨n, g, by simp, rfl⟩
      · obtain ⟨id, g', h1, h2⟩ := ih (n + 1) hb
        exact ⟨id, g', by simp [h1], h2⟩
    | false =>
      simp only [buildBlocks, List.mem_cons] at hb
      rcases hb with rfl | hb
      · simp [blockId] at hid
      · obtain ⟨id, g', h1, h2⟩ := ih n hb
        exact ⟨id, g', by simp [h1], h2⟩

/-- the set of every import block of a `reformat` pass is shadow-free -/
theorem reformat_sets_free (ss : List Stmt) (b : Block) (hb : b ∈ (reformat ss).blocks) (hid : blockId b ≠ none) :
    ShadowFree (setOf b) := by
  simp only [reformat, preprocess] at hb
  obtain ⟨id, g, _, rfl⟩ := buildBlocks_imports_mem _ 0 b hb hid
  simp only [mkImportBlock, setOf]
  exact fromImportsShadow_free _

/-- **C03_reformat_idem_text** — `reformat_import_statements` run on (the statements of) its own output prints the
    same text, with the C11 model of the formatter: for every statement list whose import statements each hold
    an import, and every configuration for which each import block of the first pass holds well-formed names
    and is printed as a non-empty text. -/
theorem C03_reformat_idem_text (p : C11.Params) (ss : List Stmt)
    (hne : ∀ s ∈ ss, s.isImport = true → s.imports ≠ [])
    (hwf : ∀ b ∈ (reformat ss).blocks, ∀ i ∈ setOf b, C11.wfName i.fullname = true)
    (hp : ∀ b ∈ (reformat ss).blocks, blockId b ≠ none →
      ∃ t, t ≠ [] ∧ C11.pretty ((setOf b).map toC11) p = .ok t) :
    output (reformat (reparse (c11Fmt p) (reformat ss).blocks)) p = output (reformat ss) p := by
  have hf : ∀ b ∈ (reformat ss).blocks, blockId b ≠ none → FmtOK (c11Fmt p) (setOf b) := by
    intro b hb hid
    obtain ⟨t, _, ht⟩ := hp b hb hid
    exact c11Fmt_ok p _ t ((shadowFree_iff _).mp (reformat_sets_free ss b hb hid)).1 (hwf b hb) ht
  obtain ⟨hsim, _, _⟩ := C03_reformat_idem_blocks (c11Fmt p) ss hne hf
  unfold output
  rw [renderBlocks_sim _ (reformat ss) p _ _ hsim (fun b hb hid h0 => by
    obtain ⟨t, htne, ht⟩ := hp b hb hid
    rw [ht] at h0
    injection h0 with h0
    exact htne h0)]

/-! ## 3. a second tidy pass that has nothing to remove or add changes no block -/

/-- the block `add_import(imp, max_lineno)` uses when it does not create a new one: the selected block, else the
    last block holding a `__future__` import -/
def targetBlock (st : St) (imp : Imp) (ml : Option Nat) : Option Nat :=
  match selectBlock st imp ml with
  | some id => some id
  | none => leadingFuture st.blocks

/-- the import set of block `id` -/
def heldBy (st : St) (id : Nat) : List Imp :=
  ((st.blocks.find? (fun b => blockId b = some id)).map setOf).getD []

/-- `imp` is already in the block `add_import` would put it in -/
def alreadyPresent (st : St) (imp : Imp) (ml : Option Nat) : Bool :=
  match targetBlock st imp ml with
  | some id => decide (imp ∈ heldBy st id)
  | none => false

theorem addImport_of_alreadyPresent (st : St) (imp : Imp) (ml : Option Nat)
    (h : alreadyPresent st imp ml = true) : addImport st imp ml = .error .importAlreadyExists := by
  unfold alreadyPresent targetBlock at h
  unfold addImport
  cases hs : selectBlock st imp ml with
  | some id =>
    rw [hs] at h
    simp only [heldBy] at h
    simp only []
    rw [if_pos (of_decide_eq_true h)]
  | none =>
    rw [hs] at h
    simp only [] at h
    cases hl : leadingFuture st.blocks with
    | none => rw [hl] at h; simp at h
    | some fid =>
      rw [hl] at h
      simp only [heldBy] at h
      simp only [insertNewImportBlock, hl]
      rw [if_pos (of_decide_eq_true h)]

theorem addMandatoryLoop_noop (st : St) (ms : List Imp)
    (h : ∀ imp ∈ ms, alreadyPresent st imp none = true) : addMandatoryLoop st ms = .ok st := by
  induction ms with
  | nil => rfl
  | cons m ms ih =>
    unfold addMandatoryLoop
    rw [addImport_of_alreadyPresent st m none (h m (by simp))]
    exact ih (fun i hi => h i (by simp [hi]))

theorem addMissingLoop_noop (known : List Imp) (all : List (Nat × Str)) (st : St) (added : List Imp)
    (ms : List (Nat × Str)) (h : ∀ m ∈ ms, (lookupKnown known m.2).length ≠ 1) :
    addMissingLoop known all st added ms = .ok (st, added) := by
  induction ms with
  | nil => rfl
  | cons m ms ih =>
    obtain ⟨ln, name⟩ := m
    unfold addMissingLoop
    have h1 := h (ln, name) (by simp)
    split
    · rename_i imp hk
      simp [hk] at h1
    · exact ih (fun m hm => h m (by simp [hm]))

/-- **C03_tidy_second_pass_noop** — the second stage of `fix_unused_and_missing_imports` on a file in which the
    analysis finds no unused import, every name still reported missing has no unique database entry, and
    every mandatory import is already held by the block `add_import` selects for it, returns the `preprocess`ed
    input itself: no block is added, no import set changes (for every flag combination). -/
theorem C03_tidy_second_pass_noop (ss : List Stmt) (scan : Scan) (known mandatory : List Imp) (fl : Flags)
    (hu : scan.unused = [])
    (hm : ∀ m ∈ scan.missing, (lookupKnown known m.2).length ≠ 1)
    (hp : ∀ imp ∈ mandatory, alreadyPresent (preprocess ss) imp none = true) :
    fixStage2 ss scan known mandatory fl = .ok (preprocess ss) := by
  have h1 : stageRemove fl (preprocess ss) scan = .ok (preprocess ss) := by
    unfold stageRemove; rw [hu]; simp [removeAll]
  have h2 : stageMissing fl (preprocess ss) scan known = .ok (preprocess ss) := by
    unfold stageMissing
    rw [addMissingLoop_noop known scan.missing (preprocess ss) [] scan.missing hm]
    simp
  have h3 : stageMandatory fl (preprocess ss) mandatory = .ok (preprocess ss) := by
    unfold stageMandatory
    rw [addMandatoryLoop_noop _ _ hp]; simp
  unfold fixStage2
  rw [h1]; simp only [bind, Except.bind]
  rw [h2]; simp only []
  exact h3

/-! ## 4. `add_import` is idempotent: the second call finds the import in the block the first one used -/

/-- the sort key of block `id` as a candidate for `imp` (`none` = not a candidate) -/
def candKey (bs : List Block) (imp : Imp) (ml : Option Nat) (id : Nat) : Option (Nat × Nat) :=
  match bs.find? (fun b => blockId b = some id) with
  | some (.imports _ _ l e blank set) =>
    if candOk imp blank l ml set then some ((set.map (prefixMatch imp)).foldl max 0, e) else none
  | _ => none

theorem candidates_eq (st : St) (imp : Imp) (ml : Option Nat) :
    candidates st imp ml = st.order.filterMap fun id => (candKey st.blocks imp ml id).map (·, id) := by
  unfold candidates candKey
  congr 1
  funext id
  cases hf : st.blocks.find? (fun b => blockId b = some id) with
  | none => rfl
  | some b =>
    cases b with
    | verbatim ss ins => rfl
    | imports i s l e bl set =>
      simp only []
      split <;> rfl

theorem mem_candidates (st : St) (imp : Imp) (ml : Option Nat) (c : (Nat × Nat) × Nat) :
    c ∈ candidates st imp ml ↔ c.2 ∈ st.order ∧ candKey st.blocks imp ml c.2 = some c.1 := by
  rw [candidates_eq, List.mem_filterMap]
  constructor
  · rintro ⟨id, hid, h⟩
    cases hk : candKey st.blocks imp ml id with
    | none => rw [hk] at h; simp at h
    | some k => rw [hk] at h; simp at h; subst h; exact ⟨hid, hk⟩
  · rintro ⟨h1, h2⟩
    exact ⟨c.2, h1, by rw [h2]; rfl⟩

/-! ### keyLe is a total preorder; pickBest returns a maximal element -/

theorem keyLe_refl (a : Nat × Nat) : keyLe a a = true := by simp [keyLe]
theorem keyLe_total (a b : Nat × Nat) : keyLe a b = true ∨ keyLe b a = true := by
  simp [keyLe]; omega
theorem keyLe_trans (a b c : Nat × Nat) (h1 : keyLe a b = true) (h2 : keyLe b c = true) : keyLe a c = true := by
  simp [keyLe] at *; omega
theorem keyLe_of_fst_lt (a b : Nat × Nat) (h : a.1 < b.1) : keyLe b a = false := by
  simp [keyLe]; omega

theorem pickBest_none (cs : List ((Nat × Nat) × Nat)) (h : pickBest cs = none) : cs = [] := by
  cases cs with
  | nil => rfl
  | cons c cs =>
    unfold pickBest at h
    split at h
    · cases h
    · split at h <;> cases h

theorem pickBest_max (cs : List ((Nat × Nat) × Nat)) (d : (Nat × Nat) × Nat) (h : pickBest cs = some d) :
    ∀ x ∈ cs, keyLe x.1 d.1 = true := by
  induction cs generalizing d with
  | nil => simp [pickBest] at h
  | cons c cs ih =>
    unfold pickBest at h
    split at h
    · rename_i hn
      cases h
      have := pickBest_none cs hn; subst this
      intro x hx; simp at hx; subst hx; exact keyLe_refl _
    · rename_i e he
      have ihe := ih e he
      split at h
      · rename_i hle
        cases h
        intro x hx; simp at hx
        rcases hx with rfl | hx
        · exact hle
        · exact ihe x hx
      · rename_i hle
        cases h
        intro x hx; simp at hx
        rcases hx with rfl | hx
        · exact keyLe_refl _
        · have h1 := ihe x hx
          rcases keyLe_total e.1 c.1 with h2 | h2
          · exact keyLe_trans _ _ _ h1 h2
          · exact absurd h2 hle

/-- an entry whose id is `B` carries the key `kb`, and every other entry is strictly smaller: it is picked -/
theorem pickBest_dominant (cs : List ((Nat × Nat) × Nat)) (kb : Nat × Nat) (B : Nat)
    (hin : (kb, B) ∈ cs) (hB : ∀ c ∈ cs, c.2 = B → c.1 = kb)
    (hlt : ∀ c ∈ cs, c.2 ≠ B → keyLe kb c.1 = false) : pickBest cs = some (kb, B) := by
  induction cs with
  | nil => simp at hin
  | cons c cs ih =>
    have hB' : ∀ c ∈ cs, c.2 = B → c.1 = kb := fun x hx => hB x (by simp [hx])
    have hlt' : ∀ c ∈ cs, c.2 ≠ B → keyLe kb c.1 = false := fun x hx => hlt x (by simp [hx])
    by_cases hmem : (kb, B) ∈ cs
    · have := ih hmem hB' hlt'
      unfold pickBest
      rw [this]
      simp only []
      have hle : keyLe c.1 kb = true := by
        by_cases hc : c.2 = B
        · rw [hB c (by simp) hc]; exact keyLe_refl _
        · have := hlt c (by simp) hc
          rcases keyLe_total c.1 kb with h | h
          · exact h
          · rw [h] at this; cases this
      rw [if_pos hle]
    · have hc : c = (kb, B) := by
        simp at hin
        rcases hin with h | h
        · exact h.symm
        · exact absurd h hmem
      subst hc
      unfold pickBest
      cases hp : pickBest cs with
      | none => rfl
      | some d =>
        simp only []
        have hd := pickBest_mem cs d hp
        have hdB : d.2 ≠ B := by
          intro e
          apply hmem
          have := hB' d hd e
          have hd' : d = (kb, B) := by
            obtain ⟨dk, did⟩ := d
            simp at this e; subst this; subst e; rfl
          rw [← hd']; exact hd
        have := hlt' d hd hdB
        rw [if_neg (by simp [this])]

/-- raising the key of the picked block keeps it picked -/
theorem pickBest_raise (cs : List ((Nat × Nat) × Nat)) (kb kb' : Nat × Nat) (B : Nat)
    (h : pickBest cs = some (kb, B)) (hB : ∀ c ∈ cs, c.2 = B → c.1 = kb) (hle : keyLe kb kb' = true) :
    pickBest (cs.map fun c => if c.2 = B then (kb', B) else c) = some (kb', B) := by
  induction cs with
  | nil => simp [pickBest] at h
  | cons c cs ih =>
    have hB' : ∀ c ∈ cs, c.2 = B → c.1 = kb := fun x hx => hB x (by simp [hx])
    unfold pickBest at h
    rw [List.map_cons]
    unfold pickBest
    cases hp : pickBest cs with
    | none =>
      rw [hp] at h
      simp only [] at h
      injection h with h; subst h
      have := pickBest_none cs hp; subst this
      simp [pickBest]
    | some d =>
      rw [hp] at h
      simp only [] at h
      by_cases hcd : keyLe c.1 d.1 = true
      · rw [if_pos hcd] at h
        injection h with h; subst h
        rw [ih hp hB']
        simp only []
        have : keyLe (if c.2 = B then (kb', B) else c).1 kb' = true := by
          split
          · exact keyLe_refl _
          · exact keyLe_trans _ _ _ hcd hle
        rw [if_pos this]
      · rw [if_neg hcd] at h
        injection h with h; subst h
        simp only [if_true]
        cases hp' : pickBest (cs.map fun c => if c.2 = B then (kb', B) else c) with
        | none => rfl
        | some d' =>
          simp only []
          have hd' := pickBest_mem _ _ hp'
          obtain ⟨x, hx, hxe⟩ := List.mem_map.mp hd'
          have hxd := pickBest_max cs d hp x hx
          have hxB : x.2 ≠ B := by
            intro e
            rw [hB' x hx e] at hxd
            exact hcd hxd
          rw [if_neg hxB] at hxe
          subst hxe
          rw [if_neg]
          intro hk
          exact hcd (keyLe_trans _ _ _ hle (keyLe_trans _ _ _ hk hxd))


/-! ### the prefix-match key is bounded by the import's own length, and reached when the import is in the set -/

theorem commonPrefixLen_le (a b : List Str) : commonPrefixLen a b ≤ a.length := by
  induction a generalizing b with
  | nil => simp [commonPrefixLen]
  | cons x xs ih =>
    cases b with
    | nil => simp [commonPrefixLen]
    | cons y ys =>
      simp only [commonPrefixLen]
      split
      · have := ih ys; simp; omega
      · simp

theorem commonPrefixLen_self (a : List Str) : commonPrefixLen a a = a.length := by
  induction a with
  | nil => rfl
  | cons x xs ih => simp [commonPrefixLen, ih]; omega

theorem splitDots_ne_nil (s : Str) : splitDots s ≠ [] := by
  induction s with
  | nil => simp [splitDots]
  | cons c cs ih =>
    unfold splitDots
    split
    · simp
    · split <;> simp

/-- `len(imp.prefix_match(imp))`: the number of dotted components -/
def fullKey (imp : Imp) : Nat := prefixMatch imp imp

theorem fullKey_pos (imp : Imp) : 1 ≤ fullKey imp := by
  unfold fullKey prefixMatch
  rw [commonPrefixLen_self]
  have := splitDots_ne_nil imp.fullname
  cases h : splitDots imp.fullname with
  | nil => exact absurd h this
  | cons => simp

theorem prefixMatch_le (imp j : Imp) : prefixMatch imp j ≤ fullKey imp := by
  unfold fullKey prefixMatch
  rw [commonPrefixLen_self]
  exact commonPrefixLen_le _ _

theorem foldl_max_le (l : List Nat) (a m : Nat) (ha : a ≤ m) (h : ∀ x ∈ l, x ≤ m) : l.foldl max a ≤ m := by
  induction l generalizing a with
  | nil => simpa using ha
  | cons x xs ih =>
    simp only [List.foldl_cons]
    exact ih _ (by have := h x (by simp); omega) (fun y hy => h y (by simp [hy]))

theorem le_foldl_max (l : List Nat) (a : Nat) : a ≤ l.foldl max a := by
  induction l generalizing a with
  | nil => simp
  | cons x xs ih =>
    simp only [List.foldl_cons]
    have := ih (max a x); omega

theorem mem_le_foldl_max (l : List Nat) (a x : Nat) (h : x ∈ l) : x ≤ l.foldl max a := by
  induction l generalizing a with
  | nil => simp at h
  | cons y ys ih =>
    simp only [List.foldl_cons]
    simp at h
    rcases h with rfl | h
    · have := le_foldl_max ys (max a x); omega
    · exact ih _ h

theorem setKey_le (imp : Imp) (set : List Imp) : (set.map (prefixMatch imp)).foldl max 0 ≤ fullKey imp := by
  apply foldl_max_le _ _ _ (by omega)
  intro x hx
  obtain ⟨j, _, rfl⟩ := List.mem_map.mp hx
  exact prefixMatch_le imp j

theorem setKey_of_mem (imp : Imp) (set : List Imp) (h : imp ∈ set) :
    (set.map (prefixMatch imp)).foldl max 0 = fullKey imp := by
  apply Nat.le_antisymm (setKey_le imp set)
  exact mem_le_foldl_max _ _ _ (List.mem_map.mpr ⟨imp, h, rfl⟩)

/-! ### `find?` by id and `updSet` -/

/-- the block with its set replaced -/
def mapSet (f : List Imp → List Imp) : Block → Block
  | .imports i s l e b set => .imports i s l e b (f set)
  | b => b

theorem find_updSet_ne (id id' : Nat) (f : List Imp → List Imp) (bs : List Block) (h : id' ≠ id) :
    (updSet id f bs).find? (fun b => blockId b = some id') = bs.find? (fun b => blockId b = some id') := by
  induction bs with
  | nil => rfl
  | cons b bs ih =>
    cases b with
    | verbatim ss ins =>
      have hv : ∀ k, (decide (blockId (Block.verbatim ss ins) = some k)) = false := by intro k; simp [blockId]
      simp only [updSet, List.find?_cons, hv]
      exact ih
    | imports i s l e bl set =>
      simp only [updSet]
      split
      · rename_i hi
        subst hi
        simp [blockId, Ne.symm h]
      · simp only [List.find?_cons, blockId]
        split
        · rfl
        · exact ih

theorem find_updSet_eq (id : Nat) (f : List Imp → List Imp) (bs : List Block) :
    (updSet id f bs).find? (fun b => blockId b = some id) =
      (bs.find? (fun b => blockId b = some id)).map (mapSet f) := by
  induction bs with
  | nil => rfl
  | cons b bs ih =>
    cases b with
    | verbatim ss ins =>
      have hv : ∀ k, (decide (blockId (Block.verbatim ss ins) = some k)) = false := by intro k; simp [blockId]
      simp only [updSet, List.find?_cons, hv]
      exact ih
    | imports i s l e bl set =>
      simp only [updSet]
      split
      · rename_i hi
        subst hi
        simp [blockId, mapSet]
      · rename_i hi
        have hv : decide (blockId (Block.imports i s l e bl set) = some id) = false := by simp [blockId, hi]
        simp only [List.find?_cons, hv]
        exact ih

theorem find_id (bs : List Block) (id : Nat) (b : Block)
    (h : bs.find? (fun b => blockId b = some id) = some b) :
    ∃ s l e bl set, b = .imports id s l e bl set := by
  have := List.find?_some h
  cases b with
  | verbatim ss ins => simp [blockId] at this
  | imports i s l e bl set =>
    simp [blockId] at this; subst this
    exact ⟨s, l, e, bl, set, rfl⟩

theorem find_of_exists (bs : List Block) (id : Nat) (h : ∃ b ∈ bs, blockId b = some id) :
    ∃ s l e bl set, bs.find? (fun b => blockId b = some id) = some (.imports id s l e bl set) := by
  cases hf : bs.find? (fun b => blockId b = some id) with
  | none =>
    obtain ⟨b, hb, hid⟩ := h
    have := List.find?_eq_none.mp hf b hb
    simp [hid] at this
  | some b =>
    obtain ⟨s, l, e, bl, set, rfl⟩ := find_id bs id b hf
    exact ⟨s, l, e, bl, set, rfl⟩


/-! ### candidate keys after the import has been added to block `B` -/

theorem filterMap_congr' {α β} (f g : α → Option β) (l : List α) (h : ∀ x ∈ l, f x = g x) :
    l.filterMap f = l.filterMap g := by
  induction l with
  | nil => rfl
  | cons a as ih =>
    rw [List.filterMap_cons, List.filterMap_cons, h a (by simp), ih (fun x hx => h x (by simp [hx]))]

theorem mem_withImport (set : List Imp) (imp : Imp) : imp ∈ withImport set imp := by
  unfold withImport; split <;> simp_all

theorem candOk_mono (imp : Imp) (bl : Bool) (l : Nat) (ml : Option Nat) (set : List Imp)
    (h : candOk imp bl l ml set = true) : candOk imp bl l ml (withImport set imp) = true := by
  unfold candOk at *
  simp only [Bool.and_eq_true, Bool.or_eq_true] at *
  refine ⟨h.1, ?_⟩
  rcases h.2 with h2 | h2
  · exact Or.inl h2
  · right
    unfold withImport
    split
    · exact h2
    · simp [List.any_append, h2]

theorem candKey_upd_ne (bs : List Block) (imp : Imp) (ml : Option Nat) (B id : Nat) (h : id ≠ B)
    (f : List Imp → List Imp) : candKey (updSet B f bs) imp ml id = candKey bs imp ml id := by
  unfold candKey
  rw [find_updSet_ne B id f bs h]

theorem candKey_upd_eq (bs : List Block) (imp : Imp) (ml : Option Nat) (B s l e : Nat) (bl : Bool)
    (set : List Imp) (hf : bs.find? (fun b => blockId b = some B) = some (.imports B s l e bl set)) :
    candKey (updSet B (fun s => withImport s imp) bs) imp ml B =
      if candOk imp bl l ml (withImport set imp) then some (fullKey imp, e) else none := by
  unfold candKey
  rw [find_updSet_eq, hf]
  simp only [Option.map_some, mapSet]
  rw [setKey_of_mem imp _ (mem_withImport set imp)]

theorem candKey_of_find (bs : List Block) (imp : Imp) (ml : Option Nat) (B s l e : Nat) (bl : Bool)
    (set : List Imp) (hf : bs.find? (fun b => blockId b = some B) = some (.imports B s l e bl set)) :
    candKey bs imp ml B =
      if candOk imp bl l ml set then some ((set.map (prefixMatch imp)).foldl max 0, e) else none := by
  unfold candKey
  rw [hf]

theorem select_none_small (st : St) (imp : Imp) (ml : Option Nat) (h : selectBlock st imp ml = none) :
    ∀ c ∈ candidates st imp ml, c.1.1 = 0 := by
  unfold selectBlock at h
  split at h
  · rename_i hp
    rw [pickBest_none _ hp]; simp
  · rename_i k id hp
    split at h
    · rename_i hc
      simp only [Bool.and_eq_true, decide_eq_true_eq] at hc
      intro c hc'
      have := pickBest_max _ _ hp c hc'
      simp [keyLe] at this
      omega
    · cases h

/-- **first case**: the block was selected; after the import joined it, it is selected again -/
theorem select_again_selected (st : St) (imp : Imp) (ml : Option Nat) (B : Nat)
    (h : selectBlock st imp ml = some B) :
    selectBlock { st with blocks := updSet B (fun s => withImport s imp) st.blocks } imp ml = some B := by
  obtain ⟨s, l, e, bl, set, hf⟩ := find_of_exists st.blocks B (selectBlock_exists st imp ml B h)
  unfold selectBlock at h
  split at h
  · cases h
  · rename_i k id' hp
    have hid : id' = B := by split at h <;> simp_all
    subst hid
    have hm := (mem_candidates st imp ml _).mp (pickBest_mem _ _ hp)
    simp only [] at hm
    have hk := hm.2
    rw [candKey_of_find _ _ _ _ s l e bl set hf] at hk
    by_cases hok : candOk imp bl l ml set = true
    · rw [if_pos hok] at hk
      injection hk with hk
      -- candidates of the second call
      have hcs : candidates { st with blocks := updSet id' (fun s => withImport s imp) st.blocks } imp ml
          = (candidates st imp ml).map fun c => if c.2 = id' then ((fullKey imp, e), id') else c := by
        rw [candidates_eq, candidates_eq, List.map_filterMap]
        apply filterMap_congr'
        intro id _
        by_cases hid : id = id'
        · subst hid
          rw [candKey_upd_eq _ _ _ _ s l e bl set hf, if_pos (candOk_mono _ _ _ _ _ hok),
            candKey_of_find _ _ _ _ s l e bl set hf, if_pos hok]
          simp
        · rw [candKey_upd_ne _ _ _ _ _ hid]
          cases candKey st.blocks imp ml id with
          | none => rfl
          | some k' => simp [hid]
      have hB : ∀ c ∈ candidates st imp ml, c.2 = id' → c.1 = k := by
        intro c hc e'
        have := ((mem_candidates st imp ml c).mp hc).2
        rw [e', hm.2] at this
        injection this with this; exact this.symm
      have hle : keyLe k (fullKey imp, e) = true := by
        rw [← hk]
        have := setKey_le imp set
        simp [keyLe]; omega
      have := pickBest_raise _ k (fullKey imp, e) id' hp hB hle
      unfold selectBlock
      rw [hcs, this]
      simp only []
      have := fullKey_pos imp
      rw [if_neg]
      simp; omega
    · rw [if_neg hok] at hk; cases hk


/-- **second case**: every other candidate has key 0 (nothing was selected before).  After the import joined
    block `B`, either `B` is a candidate and is selected, or the candidates are what they were. -/
theorem select_again_small (st1 : St) (imp : Imp) (ml : Option Nat) (B s l e : Nat) (bl : Bool) (set : List Imp)
    (hf : st1.blocks.find? (fun b => blockId b = some B) = some (.imports B s l e bl set))
    (hsmall : ∀ c ∈ candidates st1 imp ml, c.2 ≠ B → c.1.1 = 0) :
    let st' : St := { st1 with blocks := updSet B (fun s => withImport s imp) st1.blocks }
    (B ∈ st1.order ∧ candOk imp bl l ml (withImport set imp) = true → selectBlock st' imp ml = some B) ∧
    (¬ (B ∈ st1.order ∧ candOk imp bl l ml (withImport set imp) = true) →
      candidates st' imp ml = candidates st1 imp ml) := by
  intro st'
  have hkB := candKey_upd_eq st1.blocks imp ml B s l e bl set hf
  constructor
  · rintro ⟨hB, hok⟩
    rw [if_pos hok] at hkB
    have hpick : pickBest (candidates st' imp ml) = some ((fullKey imp, e), B) := by
      apply pickBest_dominant
      · exact (mem_candidates st' imp ml _).mpr ⟨hB, hkB⟩
      · intro c hc hcB
        have := ((mem_candidates st' imp ml c).mp hc).2
        rw [hcB] at this
        have h2 : candKey st'.blocks imp ml B = some (fullKey imp, e) := hkB
        rw [h2] at this
        injection this with this; exact this.symm
      · intro c hc hcB
        have hc' := (mem_candidates st' imp ml c).mp hc
        have h2 : candKey st'.blocks imp ml c.2 = candKey st1.blocks imp ml c.2 :=
          candKey_upd_ne st1.blocks imp ml B c.2 hcB _
        have hc1 : c ∈ candidates st1 imp ml :=
          (mem_candidates st1 imp ml c).mpr ⟨hc'.1, by rw [← h2]; exact hc'.2⟩
        have := hsmall c hc1 hcB
        apply keyLe_of_fst_lt
        have := fullKey_pos imp
        simp; omega
    unfold selectBlock
    rw [hpick]
    simp only []
    have := fullKey_pos imp
    rw [if_neg]
    simp; omega
  · intro hn
    rw [candidates_eq, candidates_eq]
    apply filterMap_congr'
    intro id hid
    by_cases hidB : id = B
    · subst hidB
      have hok : ¬ candOk imp bl l ml (withImport set imp) = true := fun h => hn ⟨hid, h⟩
      have h2 : candKey st'.blocks imp ml id = none := by
        have := hkB; rw [if_neg hok] at this; exact this
      rw [h2, candKey_of_find _ _ _ _ s l e bl set hf,
        if_neg (fun h => hok (candOk_mono _ _ _ _ _ h))]
    · have h2 : candKey st'.blocks imp ml id = candKey st1.blocks imp ml id :=
        candKey_upd_ne st1.blocks imp ml B id hidB _
      rw [h2]

/-! ### a freshly inserted block is found by its id, and hides no other block -/

theorem find_insert_ne (blocks : List Block) (N id : Nat) (h : id ≠ N) :
    (insertAfterComments blocks [newImportBlock N, sepBlock]).find? (fun b => blockId b = some id) =
      blocks.find? (fun b => blockId b = some id) := by
  have hv : ∀ ss ins, (decide (blockId (Block.verbatim ss ins) = some id)) = false := by
    intro ss ins; simp [blockId]
  have hn : (decide (blockId (newImportBlock N) = some id)) = false := by
    simp [blockId, newImportBlock, Ne.symm h]
  have hs : (decide (blockId sepBlock = some id)) = false := by simp [blockId, sepBlock]
  unfold insertAfterComments
  cases blocks with
  | nil => simp [hn, hs]
  | cons b rest =>
    cases b with
    | imports i s l e bl set => simp [hn, hs]
    | verbatim ss ins =>
      simp only []
      split
      · split
        · rename_i h'; obtain ⟨hr, _, _⟩ := h'; subst hr
          simp [hn, hs, hv]
        · simp [hn, hs, hv]
      · split
        · simp [hn, hs, hv]
        · simp [hn, hs, hv]

theorem find_insert_new (blocks : List Block) (N : Nat) :
    (insertAfterComments blocks [newImportBlock N, sepBlock]).find? (fun b => blockId b = some N) =
      some (newImportBlock N) := by
  have hv : ∀ ss ins, (decide (blockId (Block.verbatim ss ins) = some N)) = false := by
    intro ss ins; simp [blockId]
  have hn : (decide (blockId (newImportBlock N) = some N)) = true := by
    simp [blockId, newImportBlock]
  have hs' : (decide (blockId sepBlock = some N)) = false := by simp [blockId, sepBlock]
  unfold insertAfterComments
  cases blocks with
  | nil => simp [hn]
  | cons b rest =>
    cases b with
    | imports i s l e bl set => simp [hn]
    | verbatim ss ins =>
      simp only []
      split
      · split
        · simp [hn, hv, hs']
        · simp [hn, hv]
      · split
        · simp [hn]
        · simp [hn, hv]

/-! ### the last `__future__` block stays the last one when a set grows -/

theorem leadingFuture_cons (b : Block) (bs : List Block) :
    leadingFuture (b :: bs) = (leadingFuture bs).or (futureBlockId b) := by
  unfold leadingFuture
  rw [List.reverse_cons, List.findSome?_append]
  simp [List.findSome?_cons]
  cases futureBlockId b <;> simp

theorem leadingFuture_updSet (bs : List Block) (fid : Nat) (imp : Imp) (h : leadingFuture bs = some fid) :
    leadingFuture (updSet fid (fun s => withImport s imp) bs) = some fid := by
  induction bs with
  | nil => simp [leadingFuture] at h
  | cons b bs ih =>
    rw [leadingFuture_cons] at h
    cases b with
    | verbatim ss ins =>
      simp only [updSet]
      rw [leadingFuture_cons]
      simp only [futureBlockId, Option.or_none] at h ⊢
      exact ih h
    | imports i s l e bl set =>
      simp only [updSet]
      split
      · rename_i hi
        subst hi
        rw [leadingFuture_cons]
        cases hl : leadingFuture bs with
        | some v => rw [hl] at h; simpa using h
        | none =>
          rw [hl] at h
          simp only [Option.none_or, futureBlockId] at h ⊢
          split at h
          · rename_i hany
            rw [if_pos]
            rw [List.any_eq_true] at hany ⊢
            obtain ⟨x, hx, hxf⟩ := hany
            refine ⟨x, ?_, hxf⟩
            unfold withImport; split
            · exact hx
            · simp [hx]
          · cases h
      · rename_i hi
        rw [leadingFuture_cons]
        cases hl : leadingFuture bs with
        | some v =>
          rw [hl] at h
          simp only [Option.some_or] at h
          injection h with h; subst h
          rw [ih hl]; rfl
        | none =>
          rw [hl] at h
          simp only [Option.none_or, futureBlockId] at h
          split at h
          · injection h with h; exact absurd h hi
          · cases h


theorem selectBlock_congr (st st' : St) (imp : Imp) (ml : Option Nat)
    (h : candidates st' imp ml = candidates st imp ml) : selectBlock st' imp ml = selectBlock st imp ml := by
  unfold selectBlock; rw [h]

theorem heldBy_upd (st1 : St) (imp : Imp) (B s l e : Nat) (bl : Bool) (set : List Imp)
    (hf : st1.blocks.find? (fun b => blockId b = some B) = some (.imports B s l e bl set)) :
    imp ∈ heldBy { st1 with blocks := updSet B (fun s => withImport s imp) st1.blocks } B := by
  unfold heldBy
  simp only []
  rw [find_updSet_eq, hf]
  simp only [Option.map_some, mapSet, setOf, Option.getD_some]
  exact mem_withImport set imp

/-- the block the call `add_import(imp, max_lineno)` works on: the selected block, else the last `__future__`
    block, else the new block (whose id is `nextId`) -/
def firstTarget (st : St) (imp : Imp) (ml : Option Nat) : Nat := (targetBlock st imp ml).getD st.nextId

/-- **C03_add_then_present** — after a successful `add_import(imp, max_lineno)`, a second call with the same
    arguments selects the very block the first call used (no new block), and that block holds the import. -/
theorem C03_add_then_present (st st' : St) (imp : Imp) (ml : Option Nat)
    (h : addImport st imp ml = .ok st') :
    targetBlock st' imp ml = some (firstTarget st imp ml) ∧ imp ∈ heldBy st' (firstTarget st imp ml) := by
  unfold addImport at h
  unfold firstTarget
  cases hs : selectBlock st imp ml with
  | some B =>
    rw [hs] at h
    simp only [] at h
    split at h
    · cases h
    · injection h with h
      subst h
      obtain ⟨s, l, e, bl, set, hf⟩ := find_of_exists st.blocks B (selectBlock_exists st imp ml B hs)
      have h1 : targetBlock st imp ml = some B := by unfold targetBlock; rw [hs]
      rw [h1]
      refine ⟨?_, heldBy_upd st imp B s l e bl set hf⟩
      unfold targetBlock
      rw [select_again_selected st imp ml B hs]
      rfl
  | none =>
    rw [hs] at h
    simp only [] at h
    have hsm := select_none_small st imp ml hs
    cases hl : leadingFuture st.blocks with
    | some fid =>
      simp only [insertNewImportBlock, hl] at h
      split at h
      · cases h
      · injection h with h
        subst h
        obtain ⟨s, l, e, bl, set, hf⟩ := find_of_exists st.blocks fid (leadingFuture_mem _ _ hl)
        have h1 : targetBlock st imp ml = some fid := by unfold targetBlock; rw [hs]; exact hl
        rw [h1]
        refine ⟨?_, heldBy_upd st imp fid s l e bl set hf⟩
        have := select_again_small st imp ml fid s l e bl set hf (fun c hc _ => hsm c hc)
        simp only [] at this
        simp only [Option.getD_some]
        by_cases hc : fid ∈ st.order ∧ candOk imp bl l ml (withImport set imp) = true
        · unfold targetBlock
          rw [this.1 hc]
        · unfold targetBlock
          rw [selectBlock_congr _ _ _ _ (this.2 hc), hs]
          exact leadingFuture_updSet st.blocks fid imp hl
    | none =>
      simp only [insertNewImportBlock, hl] at h
      split at h
      · cases h
      · injection h with h
        subst h
        have h1 : targetBlock st imp ml = none := by unfold targetBlock; rw [hs]; exact hl
        rw [h1]
        simp only [Option.getD_none]
        let st1 : St := { st with blocks := insertAfterComments st.blocks [newImportBlock st.nextId, sepBlock],
                                  order := st.nextId :: st.order, nextId := st.nextId + 1 }
        have hf : st1.blocks.find? (fun b => blockId b = some st.nextId) = some (.imports st.nextId 1 1 2 true []) :=
          find_insert_new st.blocks st.nextId
        have hsmall : ∀ c ∈ candidates st1 imp ml, c.2 ≠ st.nextId → c.1.1 = 0 := by
          intro c hc hne
          have hc' := (mem_candidates st1 imp ml c).mp hc
          apply hsm c
          rw [mem_candidates]
          refine ⟨?_, ?_⟩
          · have := hc'.1
            simp only [st1, List.mem_cons] at this
            rcases this with h | h
            · exact absurd h hne
            · exact h
          · have := hc'.2
            unfold candKey at this ⊢
            rw [find_insert_ne st.blocks st.nextId c.2 hne] at this
            exact this
        have := select_again_small st1 imp ml st.nextId 1 1 2 true [] hf hsmall
        simp only [] at this
        refine ⟨?_, heldBy_upd st1 imp st.nextId 1 1 2 true [] hf⟩
        unfold targetBlock
        have hc : st.nextId ∈ st1.order ∧ candOk imp true 1 ml (withImport [] imp) = true := by
          refine ⟨by simp [st1], ?_⟩
          unfold candOk withImport
          cases ml <;> simp [lineOk]
        rw [this.1 hc]

/-- hence the second call raises ImportAlreadyExistsError and changes nothing: the mandatory-import step for
    one import is idempotent -/
theorem C03_add_idem (st st' : St) (imp : Imp) (ml : Option Nat) (h : addImport st imp ml = .ok st') :
    addImport st' imp ml = .error .importAlreadyExists := by
  apply addImport_of_alreadyPresent
  have := C03_add_then_present st st' imp ml h
  unfold alreadyPresent
  rw [this.1]
  simpa using this.2

/-! ## non-vacuity: concrete non-trivial inputs satisfy the hypotheses -/

instance : DecidableRel ShadowRel := fun a b =>
  inferInstanceAs (Decidable (a ≠ b ∧ (isStar a = false → isStar b = false → a.importAs ≠ b.importAs)))
instance (s : List Imp) : Decidable (ShadowFree s) := inferInstanceAs (Decidable (s.Pairwise ShadowRel))
instance (f : Fmt) (set : List Imp) : Decidable (FmtOK f set) :=
  inferInstanceAs (Decidable (List.Perm _ _))

private def mkI (f a : String) : Imp := ⟨f.toList, a.toList⟩
private def mkS (t : String) (k : SKind) (imp : Bool) (is : List Imp) (ln : Nat) (c : Nat := 1) : Stmt :=
  ⟨t.toList, k, imp, is, ln, c⟩

/-- a shadow-free set with two star imports, read back in another order -/
example : ShadowFree [mkI "a.x" "x", mkI "m.*" "*", mkI "n.*" "*", mkI "b.y" "y"] ∧
    [mkI "n.*" "*", mkI "b.y" "y", mkI "a.x" "x", mkI "m.*" "*"].Perm
      [mkI "a.x" "x", mkI "m.*" "*", mkI "n.*" "*", mkI "b.y" "y"] := by decide

/-- comment, two import statements (the second shadows `x` of the first), code, a mid-line import, code -/
def exIdem : List Stmt :=
  [mkS "# c\n" .comment false [] 1,
   mkS "import a.b.c, x\n" .other true [mkI "a.b.c" "a.b.c", mkI "x" "x"] 2,
   mkS "from m import x\n" .other true [mkI "m.x" "x"] 3,
   mkS "x = 1; " .other false [] 4,
   mkS "import a.b.d as q\n" .other true [mkI "a.b.d" "q"] 4 8,
   mkS "y\n" .other false [] 5]

/-- a toy formatter: one statement per import, in reverse order -/
def toyFmt : Fmt := fun set => set.reverse.map fun i =>
  ("import ".toList ++ i.fullname ++ " as ".toList ++ i.importAs ++ ['\n'], [i])

example : (∀ s ∈ exIdem, s.isImport = true → s.imports ≠ []) ∧
    (∀ b ∈ (reformat exIdem).blocks, blockId b ≠ none → FmtOK toyFmt (setOf b)) := by
  constructor <;> decide

def exParams : C11.Params := ⟨some 79, .bool true, 1, .never, 4, true, false, true⟩

example : (∀ b ∈ (reformat exIdem).blocks, ∀ i ∈ setOf b, C11.wfName i.fullname = true) := by decide +kernel
example : ((reformat exIdem).blocks.map fun b => (C11.pretty ((setOf b).map toC11) exParams).toOption) =
    [some [], some "import a.b.c\nfrom m import x\n".toList, some [], some "from a.b import d as q\n".toList, some []] := by
  decide +kernel


/-- decidable form of the "printed as a non-empty text" hypothesis -/
theorem printed_of_dec (p : C11.Params) (bs : List Block)
    (h : ∀ b ∈ bs, blockId b ≠ none →
      ((C11.pretty ((setOf b).map toC11) p).toOption.any fun t => decide (t ≠ [])) = true) :
    ∀ b ∈ bs, blockId b ≠ none → ∃ t, t ≠ [] ∧ C11.pretty ((setOf b).map toC11) p = .ok t := by
  intro b hb hid
  have := h b hb hid
  cases hq : C11.pretty ((setOf b).map toC11) p with
  | error e => rw [hq] at this; simp [Except.toOption] at this
  | ok t =>
    rw [hq] at this
    simp [Except.toOption] at this
    exact ⟨t, this, rfl⟩

/-- the text-level fixed point applied to the example -/
example : output (reformat (reparse (c11Fmt exParams) (reformat exIdem).blocks)) exParams
    = output (reformat exIdem) exParams :=
  C03_reformat_idem_text exParams exIdem (by decide) (by decide +kernel)
    (printed_of_dec _ _ (by decide +kernel))

/-- a second tidy pass over a file that already holds the mandatory `__future__` import and `import a.b.d as q` -/
def exTidied : List Stmt :=
  [mkS "from __future__ import annotations\n" .other true [mkI "__future__.annotations" "annotations"] 1,
   mkS "\n" .comment false [] 2,
   mkS "import a.b.d as q\n" .other true [mkI "a.b.d" "q"] 3,
   mkS "q.f(zz)\n" .other false [] 4]

example : (∀ imp ∈ [mkI "__future__.annotations" "annotations", mkI "a.b.d" "q"],
      alreadyPresent (preprocess exTidied) imp none = true) ∧
    (∀ m ∈ [(4, "zz".toList)], (lookupKnown [mkI "os" "os"] m.2).length ≠ 1) := by
  constructor <;> decide

/-- `add_import` succeeds on the example in its three modes: a selected block, a new block, the `__future__` block -/
example : (addImport (preprocess exIdem) (mkI "a.b.e" "e") none).toOption.isSome = true ∧
    (addImport (preprocess exIdem) (mkI "__future__.division" "division") none).toOption.isSome = true ∧
    (addImport (preprocess exTidied) (mkI "__future__.division" "division") (some 1)).toOption.isSome = true ∧
    selectBlock (preprocess exIdem) (mkI "a.b.e" "e") none = some 1 ∧
    selectBlock (preprocess exIdem) (mkI "__future__.division" "division") none = none ∧
    selectBlock (preprocess exTidied) (mkI "__future__.division" "division") (some 1) = none := by
  decide

end Pfb.C03
