/-
  Pfb.C07.Runs — `C07_runs_fragB`: the composition of C05 (the missing-name report is complete) and C07 (after a successful
  auto-import the head of every reported name is bound) that DESIGN.md calls `C07_runs_partial`:

      auto_import reports success for a program  ⇒  executing the program in the resulting namespaces raises no NameError.

  Models (all existing, none re-defined here): `Pfb.AutoImp.autoImport` (the auto-import state machine; its list of missing
  names is an input and is instantiated with `Pfb.PyCore.findMissingFx … prog` computed against the namespaces BEFORE the
  call), `Pfb.PyCore.runProgram` (reference semantics), `Pfb.C05.Agree` (a run-time state binds exactly the names of the
  namespaces).  The two namespace representations are linked by `toScopes` (same keys, object `o` ↦ `Val.obj o`).

  Proof: (1) `C05_sound_fragB` with an EMPTY registry + `reported_head_unbound`: a NameError'd name is bound in none of the
  resulting namespaces;  (2) `C05_sound_fragB` with the real registry: it is the head of a name reported against the
  RESULTING namespaces;  (3) `findMissing_mono_fragB` (new: adding bindings to the namespaces only removes names from the
  report — a two-run simulation of the visitor) + the frame property of auto-import (C06): that name was reported against
  the ORIGINAL namespaces, so it was given to auto-import;  (4) `C07_success_heads_bound`: its head got bound.  (1) ⟂ (4).

  `C07_runs_fragG` is the same statement for fragment G (module-level comprehensions, `C05_sound_fragG`); the simulation and
  the empty-registry invariant are extended to the scope brackets (`pushScope … false` / `popScope`) of a comprehension.
  Fragment C (function bodies) is NOT covered: a deferred load clones a heap cell in one run and not in the other, so the
  two-run simulation needs a renaming of heap ids.

  The theorem holds for `D = true` (dotted reads) as well: only the HEAD of a dotted name can raise NameError, and
  `C07_success_heads_bound` needs no hypothesis about the import system.  (What a dotted read can still raise after a
  reported success is AttributeError — `Pfb.C07.Witness.alias_registry_witness` — which is outside C07's statement.)
-/
import Pfb.C07.Props
import Pfb.C05.Props
import Pfb.C05.PropsG
namespace Pfb.C07
open Pfb Pfb.PyCore Pfb.C05

/-! ### the visitor actions of fragment B -/

/-- the primitive visitor actions a fragment-B program compiles to -/
def opB : Op → Bool
  | .setLine _ => true
  | .load _ => true
  | .store _ => true
  | .importAlias _ _ _ _ => true
  | .allNames _ => true
  | _ => false

theorem cAliases_opB (m : Option Str) : ∀ (names : List Alias) (idx : Nat), ∀ op ∈ cAliases m idx names, opB op = true
  | [], _, op, h => by simp [cAliases] at h
  | a :: r, idx, op, h => by
    simp only [cAliases, List.mem_cons] at h
    rcases h with rfl | h
    · rfl
    · exact cAliases_opB m r (idx + 1) op h

theorem cStmt_opB (fx : Fixes) (D : Bool) : ∀ (s : Stmt) (ln : Nat), fragBStmt D s = true → ∀ op ∈ cStmt fx ln s, opB op = true
  | .expr e, ln, hfr, op, h => by
    simp only [cStmt] at h
    rw [cExpr_loads fx D e (by simpa [fragBStmt] using hfr)] at h
    obtain ⟨d, _, rfl⟩ := List.mem_map.mp h
    rfl
  | .assign ts e, ln, hfr, op, h => by
    simp only [fragBStmt, Bool.and_eq_true] at hfr
    cases hsn : singleName ts with
    | none => rw [hsn] at hfr; simp at hfr
    | some x =>
      have hts := singleName_eq hsn
      subst hts
      simp only [cStmt, List.mem_append] at h
      rcases h with (h | h) | h
      · rw [cExpr_loads fx D e hfr.2] at h
        obtain ⟨d, _, rfl⟩ := List.mem_map.mp h
        rfl
      · simp [cTargets, cTarget] at h; subst h; rfl
      · rcases cAll_cases x e with h0 | ⟨_, ns, h1⟩
        · rw [h0] at h; simp at h
        · rw [h1] at h; simp at h; subst h; rfl
  | .pass, ln, _, op, h => by simp [cStmt] at h
  | .import_ names, ln, _, op, h => by simp only [cStmt] at h; exact cAliases_opB _ names 0 op h
  | .importFrom _ names, ln, _, op, h => by simp only [cStmt] at h; exact cAliases_opB _ names 0 op h
  | .located l s, ln, hfr, op, h => by
    simp only [cStmt, List.mem_cons] at h
    rcases h with rfl | h
    · rfl
    · exact cStmt_opB fx D s l (by simpa [fragBStmt] using hfr) op h
  | .augAssign _ _, _, hfr, _, _ => by simp [fragBStmt] at hfr
  | .annAssign _ _ _, _, hfr, _, _ => by simp [fragBStmt] at hfr
  | .funcDef _ _ _ _ _, _, hfr, _, _ => by simp [fragBStmt] at hfr
  | .classDef _ _ _ _, _, hfr, _, _ => by simp [fragBStmt] at hfr
  | .for_ _ _ _ _, _, hfr, _, _ => by simp [fragBStmt] at hfr
  | .while_ _ _ _, _, hfr, _, _ => by simp [fragBStmt] at hfr
  | .if_ _ _ _, _, hfr, _, _ => by simp [fragBStmt] at hfr
  | .with_ _ _, _, hfr, _, _ => by simp [fragBStmt] at hfr
  | .try_ _ _ _ _, _, hfr, _, _ => by simp [fragBStmt] at hfr
  | .return_ _, _, hfr, _, _ => by simp [fragBStmt] at hfr
  | .raise_ _, _, hfr, _, _ => by simp [fragBStmt] at hfr
  | .delete _, _, hfr, _, _ => by simp [fragBStmt] at hfr
  | .global_ _, _, hfr, _, _ => by simp [fragBStmt] at hfr
  | .nonlocal_ _, _, hfr, _, _ => by simp [fragBStmt] at hfr

theorem cStmts_opB (fx : Fixes) (D : Bool) : ∀ (ss : List Stmt) (ln : Nat), fragB D ss = true → ∀ op ∈ cStmts fx ln ss, opB op = true
  | [], _, _, op, h => by simp [cStmts] at h
  | s :: ss, ln, hfr, op, h => by
    simp only [fragB, List.all_cons, Bool.and_eq_true] at hfr
    simp only [cStmts, List.mem_append] at h
    rcases h with h | h
    · exact cStmt_opB fx D s ln hfr.1 op h
    · exact cStmts_opB fx D ss ln (by simpa [fragB] using hfr.2) op h

/-! ### what `checkLoad` and `deferGlobal` do -/

theorem checkLoad_shape (reg : Registry) (st : AState) (n : Str) (ids : List Nat) (l : Nat) :
    (checkLoad reg st n ids l).heap = st.heap ∧ (checkLoad reg st n ids l).stack = st.stack ∧
    (checkLoad reg st n ids l).inFunc = st.inFunc ∧ (checkLoad reg st n ids l).deferred = st.deferred ∧
    (∀ m ∈ st.missing, m ∈ (checkLoad reg st n ids l).missing) ∧
    (∀ m ∈ (checkLoad reg st n ids l).missing, m ∈ st.missing ∨
      (m.name = n ∧ (symbolNeedsImport reg st.heap ids n).1 = true ∧ hasStar st.heap ids = false)) ∧
    ((symbolNeedsImport reg st.heap ids n).1 = true → hasStar st.heap ids = false →
      ∃ m ∈ (checkLoad reg st n ids l).missing, m.name = n) := by
  unfold checkLoad
  dsimp only
  by_cases hneed : ((symbolNeedsImport reg st.heap ids n).1 &&
      !hasStar (st.emit (symbolNeedsImport reg st.heap ids n).2).heap ids) = true
  · rw [if_pos hneed]
    have hneed' : (symbolNeedsImport reg st.heap ids n).1 = true ∧ hasStar st.heap ids = false := by
      simpa [AState.emit] using hneed
    split
    · rename_i hany
      refine ⟨rfl, rfl, rfl, rfl, fun _ h => h, fun m hm => .inl hm, fun _ _ => ?_⟩
      simp only [AState.emit, List.any_eq_true, decide_eq_true_eq] at hany
      obtain ⟨x, hx, _, hxn⟩ := hany
      exact ⟨x, hx, hxn⟩
    · refine ⟨rfl, rfl, rfl, rfl, fun m h => List.mem_append_left _ h, fun m hm => ?_, fun _ _ => ?_⟩
      · rcases List.mem_append.mp hm with hm | hm
        · exact .inl hm
        · simp only [List.mem_singleton] at hm
          subst hm
          exact .inr ⟨rfl, hneed'⟩
      · exact ⟨_, List.mem_append_right _ (List.mem_singleton.mpr rfl), rfl⟩
  · rw [if_neg hneed]
    refine ⟨rfl, rfl, rfl, rfl, fun _ h => h, fun m hm => .inl hm, fun h1 h2 => ?_⟩
    exfalso; apply hneed
    simp [AState.emit, h1, h2]

theorem deferGlobal_shape (reg : Registry) (st : AState) (n : Str) :
    (deferGlobal reg st n).heap = st.heap ∧ (deferGlobal reg st n).stack = st.stack ∧
    (deferGlobal reg st n).inFunc = st.inFunc ∧ (deferGlobal reg st n).missing = st.missing ∧
    (∀ d ∈ st.deferred, d ∈ (deferGlobal reg st n).deferred) ∧
    (∀ d ∈ (deferGlobal reg st n).deferred, d ∈ st.deferred ∨
      (d.name = n ∧ d.ids = st.stack.ids ∧ (symbolNeedsImport reg st.heap st.stack.ids n).1 = true)) ∧
    ((symbolNeedsImport reg st.heap st.stack.ids n).1 = true →
      ∃ d ∈ (deferGlobal reg st n).deferred, d.name = n ∧ d.ids = st.stack.ids) := by
  unfold deferGlobal
  dsimp only
  split
  · rename_i h
    refine ⟨rfl, rfl, rfl, rfl, fun d hd => List.mem_append_left _ hd, fun d hd => ?_, fun _ => ?_⟩
    · rcases List.mem_append.mp hd with hd | hd
      · exact .inl hd
      · simp only [List.mem_singleton] at hd
        subst hd
        exact .inr ⟨rfl, rfl, h⟩
    · exact ⟨_, List.mem_append_right _ (List.mem_singleton.mpr rfl), rfl, rfl⟩
  · rename_i h
    refine ⟨rfl, rfl, rfl, rfl, fun d hd => hd, fun d hd => .inl hd, fun h' => absurd h' h⟩

/-- the needs-import decision can only flip from True to False when bindings are added -/
theorem sni_mono (reg : Registry) {h1 h2 : Heap} (hext : ∀ i k v, (h1.get i).get k = some v → (h2.get i).get k = some v)
    (ids : List Nat) (d : Str) (h : (symbolNeedsImport reg h2 ids d).1 = true) :
    (symbolNeedsImport reg h1 ids d).1 = true := by
  rw [symbolNeedsImport_spec] at h ⊢
  intro i hi p hp var hv
  exact h i hi p hp var (hext i _ _ hv)

theorem hasStar_mono {h1 h2 : Heap} (hext : ∀ i k v, (h1.get i).get k = some v → (h2.get i).get k = some v)
    (ids : List Nat) (h : hasStar h2 ids = false) : hasStar h1 ids = false := by
  unfold hasStar at h ⊢
  rw [List.any_eq_false] at h ⊢
  intro i hi
  have := h i hi
  cases hg : (h1.get i).get ['*'] with
  | none => simp
  | some v => rw [hext i _ _ hg] at this; simp at this

/-! ### two analyses of the same actions over namespaces `a` ⊆ `b` -/

/-- `b` is the analysis over the larger namespaces: same stack, every binding of `a` is a binding of `b`,
    and everything `b` reports (or has deferred) `a` reports (has deferred) too -/
structure Sim (a b : AState) : Prop where
  stack : b.stack = a.stack
  inFuncA : a.inFunc = false
  inFuncB : b.inFunc = false
  len : b.heap.length = a.heap.length
  ext : ∀ i k v, (a.heap.get i).get k = some v → (b.heap.get i).get k = some v
  miss : ∀ m ∈ b.missing, ∃ m' ∈ a.missing, m'.name = m.name
  defer : ∀ d ∈ b.deferred, ∃ d' ∈ a.deferred, d'.name = d.name ∧ d'.ids = d.ids

theorem Sim.checkLoad (reg : Registry) {a b : AState} (h : Sim a b) (n : Str) (ids : List Nat) (la lb : Nat) :
    Sim (checkLoad reg a n ids la) (checkLoad reg b n ids lb) := by
  obtain ⟨a1, a2, a3, a4, a5, _, a7⟩ := checkLoad_shape reg a n ids la
  obtain ⟨b1, b2, b3, b4, _, b6, _⟩ := checkLoad_shape reg b n ids lb
  refine ⟨by rw [a2, b2]; exact h.stack, by rw [a3]; exact h.inFuncA, by rw [b3]; exact h.inFuncB,
    by rw [a1, b1]; exact h.len, by rw [a1, b1]; exact h.ext, ?_, by rw [a4, b4]; exact h.defer⟩
  intro m hm
  rcases b6 m hm with hm | ⟨hmn, hs, hst⟩
  · obtain ⟨m', hm', hn⟩ := h.miss m hm
    exact ⟨m', a5 m' hm', hn⟩
  · obtain ⟨m', hm', hn⟩ := a7 (sni_mono reg h.ext ids n hs) (hasStar_mono h.ext ids hst)
    exact ⟨m', hm', by rw [hn, hmn]⟩

theorem Sim.deferGlobal (reg : Registry) {a b : AState} (h : Sim a b) (n : Str) :
    Sim (deferGlobal reg a n) (deferGlobal reg b n) := by
  obtain ⟨a1, a2, a3, a4, a5, _, a7⟩ := deferGlobal_shape reg a n
  obtain ⟨b1, b2, b3, b4, _, b6, _⟩ := deferGlobal_shape reg b n
  refine ⟨by rw [a2, b2]; exact h.stack, by rw [a3]; exact h.inFuncA, by rw [b3]; exact h.inFuncB,
    by rw [a1, b1]; exact h.len, by rw [a1, b1]; exact h.ext, by rw [a4, b4]; exact h.miss, ?_⟩
  intro d hd
  rcases b6 d hd with hd | ⟨hdn, hdi, hs⟩
  · obtain ⟨d', hd', hn⟩ := h.defer d hd
    exact ⟨d', a5 d' hd', hn⟩
  · rw [h.stack] at hs hdi
    obtain ⟨d', hd', hn, hi⟩ := a7 (sni_mono reg h.ext _ n hs)
    exact ⟨d', hd', by rw [hn, hdn], by rw [hi, hdi]⟩

theorem Sim.deferGlobals (reg : Registry) : ∀ (ns : List Str) {a b : AState}, Sim a b →
    Sim (ns.foldl (PyCore.deferGlobal reg) a) (ns.foldl (PyCore.deferGlobal reg) b)
  | [], _, _, h => h
  | n :: ns, _, _, h => Sim.deferGlobals reg ns (h.deferGlobal reg n)

theorem scope_get_set (sc : Scope) (x n : Str) (v : Val) : (sc.set x v).get n = if n = x then some v else sc.get n := by
  by_cases hn : n = x
  · subst hn; simp [scope_get_set_eq]
  · rw [scope_get_set_ne _ hn]; simp [hn]

theorem Sim.storeTop {a b : AState} (h : Sim a b) (k : Str) : Sim (storeTop a k) (storeTop b k) := by
  refine ⟨h.stack, h.inFuncA, h.inFuncB, ?_, ?_, h.miss, h.defer⟩
  · simp only [PyCore.storeTop, Heap.length_update]; exact h.len
  · intro i n v hv
    simp only [PyCore.storeTop, Heap.get_update] at hv ⊢
    rw [h.stack, h.len]
    split
    · rename_i hc
      rw [if_pos hc, scope_get_set] at hv
      rw [scope_get_set]
      split
      · rename_i hn; rw [if_pos hn] at hv; exact hv
      · rename_i hn; rw [if_neg hn] at hv; exact h.ext _ _ _ hv
    · rename_i hc
      rw [if_neg hc] at hv
      exact h.ext _ _ _ hv

theorem Sim.storeKeys : ∀ (keys : List Str) {a b : AState}, Sim a b →
    Sim (keys.foldl PyCore.storeTop a) (keys.foldl PyCore.storeTop b)
  | [], _, _, h => h
  | k :: ks, _, _, h => Sim.storeKeys ks (h.storeTop k)

theorem Sim.step (reg : Registry) {a b : AState} (h : Sim a b) (op : Op) (hop : opB op = true) :
    Sim (step reg a op) (step reg b op) := by
  cases op with
  | setLine n => exact ⟨h.stack, h.inFuncA, h.inFuncB, h.len, h.ext, h.miss, h.defer⟩
  | load n =>
    simp only [PyCore.step, h.inFuncA, h.inFuncB, h.stack]
    exact h.checkLoad reg _ _ _ _
  | store n => exact h.storeTop _
  | allNames ns =>
    simp only [PyCore.step, h.inFuncA, h.inFuncB]
    exact Sim.deferGlobals reg _ h
  | importAlias ks bd i p => exact Sim.storeKeys _ h
  | _ => simp [opB] at hop

theorem Sim.runOps (reg : Registry) : ∀ (ops : List Op) {a b : AState}, Sim a b → (∀ op ∈ ops, opB op = true) →
    Sim (runOps reg a ops) (runOps reg b ops)
  | [], _, _, h, _ => h
  | op :: ops, _, _, h, hops => by
    rw [runOps_cons, runOps_cons]
    exact Sim.runOps reg ops (h.step reg op (hops op List.mem_cons_self)) (fun o ho => hops o (List.mem_cons_of_mem _ ho))

/-- `_finish_deferred_load_checks` as a fold of `checkLoad` over a fixed heap -/
def foldCheck (reg : Registry) (ds : List Deferred) (st : AState) : AState :=
  ds.foldl (fun st d => checkLoad reg st d.name d.ids d.line) st

theorem foldCheck_spec (reg : Registry) : ∀ (ds : List Deferred) (st : AState),
    (foldCheck reg ds st).heap = st.heap ∧
    (∀ m ∈ st.missing, m ∈ (foldCheck reg ds st).missing) ∧
    (∀ m ∈ (foldCheck reg ds st).missing, m ∈ st.missing ∨ ∃ d ∈ ds, m.name = d.name ∧
        (symbolNeedsImport reg st.heap d.ids d.name).1 = true ∧ hasStar st.heap d.ids = false) ∧
    (∀ d ∈ ds, (symbolNeedsImport reg st.heap d.ids d.name).1 = true → hasStar st.heap d.ids = false →
        ∃ m ∈ (foldCheck reg ds st).missing, m.name = d.name)
  | [], st => ⟨rfl, fun _ h => h, fun _ h => .inl h, fun _ h => by simp at h⟩
  | d :: ds, st => by
    obtain ⟨c1, _, _, _, c5, c6, c7⟩ := checkLoad_shape reg st d.name d.ids d.line
    obtain ⟨i1, i2, i3, i4⟩ := foldCheck_spec reg ds (checkLoad reg st d.name d.ids d.line)
    have hf : foldCheck reg (d :: ds) st = foldCheck reg ds (checkLoad reg st d.name d.ids d.line) := rfl
    rw [hf]
    refine ⟨i1.trans c1, fun m hm => i2 m (c5 m hm), fun m hm => ?_, fun e he h1 h2 => ?_⟩
    · rcases i3 m hm with hm | ⟨e, he, h1, h2, h3⟩
      · rcases c6 m hm with hm | ⟨h1, h2, h3⟩
        · exact .inl hm
        · exact .inr ⟨d, List.mem_cons_self, h1, h2, h3⟩
      · rw [c1] at h2 h3
        exact .inr ⟨e, List.mem_cons_of_mem _ he, h1, h2, h3⟩
    · rcases List.mem_cons.mp he with rfl | he
      · obtain ⟨m, hm, hn⟩ := c7 h1 h2
        exact ⟨m, i2 m hm, hn⟩
      · exact i4 e he (by rw [c1]; exact h1) (by rw [c1]; exact h2)

theorem finishDeferred_missing (reg : Registry) (st : AState) :
    (finishDeferred reg st).missing = (foldCheck reg st.deferred st).missing := rfl

/-- the analysis over the larger namespaces reports (by name) nothing the analysis over the smaller ones does not -/
theorem Sim.finish (reg : Registry) {a b : AState} (h : Sim a b) :
    ∀ m ∈ (finishDeferred reg b).missing, ∃ m' ∈ (finishDeferred reg a).missing, m'.name = m.name := by
  intro m hm
  rw [finishDeferred_missing] at hm ⊢
  obtain ⟨_, a2, _, a4⟩ := foldCheck_spec reg a.deferred a
  obtain ⟨_, _, b3, _⟩ := foldCheck_spec reg b.deferred b
  rcases b3 m hm with hm | ⟨d, hd, hn, hs, hst⟩
  · obtain ⟨m', hm', hn⟩ := h.miss m hm
    exact ⟨m', a2 m' hm', hn⟩
  · obtain ⟨d', hd', hdn, hdi⟩ := h.defer d hd
    obtain ⟨m', hm', hmn⟩ := a4 d' hd' (by rw [hdn, hdi]; exact sni_mono reg h.ext _ _ hs)
      (by rw [hdi]; exact hasStar_mono h.ext _ hst)
    exact ⟨m', hm', by rw [hmn, hdn, hn]⟩

/-! ### the initial states -/

/-- `b` binds (to the same values) everything `a` binds, namespace by namespace -/
def ScopesExt (a b : List Scope) : Prop :=
  a.length = b.length ∧ ∀ i, (a.getD i {}).isClass = (b.getD i {}).isClass ∧
    ∀ k v, (a.getD i {}).get k = some v → (b.getD i {}).get k = some v

theorem initHeap_eq (builtins : Scope) (ns : List Scope) :
    (initState builtins ns).heap
      = [builtins, ({ items := [("__file__".toList, Val.none)] } : Scope), ({} : Scope)] ++ (ns ++ [({} : Scope)]) := by
  simp [initState]

theorem initHeap_get3 (builtins : Scope) (ns : List Scope) (j : Nat) :
    (initState builtins ns).heap.get (j + 3) = ns.getD j {} := by
  rw [initHeap_eq]
  simp only [Heap.get, List.getD_eq_getElem?_getD]
  rw [List.getElem?_append_right (by simp)]
  simp only [List.length_cons, List.length_nil, Nat.zero_add, Nat.add_sub_cancel]
  by_cases hj : j < ns.length
  · rw [List.getElem?_append_left hj]
  · rw [List.getElem?_append_right (by omega)]
    rw [List.getElem?_eq_none (by omega : ns.length ≤ j)]
    cases h : j - ns.length with
    | zero => simp
    | succ k => simp

theorem initHeap_get_lt3 (b1 : Scope) (n1 n2 : List Scope) (i : Nat) (hi : i < 3) :
    (initState b1 n1).heap.get i = (initState b1 n2).heap.get i := by
  rw [initHeap_eq, initHeap_eq]
  match i, hi with
  | 0, _ => rfl
  | 1, _ => rfl
  | 2, _ => rfl

theorem initStack_eq (builtins : Scope) (a b : List Scope) (h : ScopesExt a b) :
    (initState builtins b).stack = (initState builtins a).stack := by
  have hs : ∀ ns : List Scope, (initState builtins ns).stack =
      { ids := normIds ((normIds ((List.range ns.length).map (· + 3))).filter
          (fun i => !((initState builtins ns).heap.get i).isClass) ++ [3 + ns.length]) } := fun _ => rfl
  rw [hs a, hs b, ← h.1]
  congr 3
  apply List.filter_congr
  intro x hx
  rcases mem_normIds_iff.mp hx with rfl | rfl | hx
  · rfl
  · rfl
  · obtain ⟨j, _, rfl⟩ := List.mem_map.mp hx
    simp only [initHeap_get3]
    rw [(h.2 j).1]

theorem sim_init (builtins : Scope) (a b : List Scope) (h : ScopesExt a b) :
    Sim (initState builtins a) (initState builtins b) := by
  refine ⟨initStack_eq builtins a b h, rfl, rfl, ?_, ?_, fun m hm => by simp [initState] at hm,
    fun d hd => by simp [initState] at hd⟩
  · rw [initHeap_eq, initHeap_eq]; simp [h.1]
  · intro i k v hv
    by_cases hi : i < 3
    · rw [← initHeap_get_lt3 builtins a b i hi]; exact hv
    · obtain ⟨j, rfl⟩ : ∃ j, i = j + 3 := ⟨i - 3, by omega⟩
      rw [initHeap_get3] at hv ⊢
      exact (h.2 j).2 k v hv

/-- **Monotonicity of the missing-name report on fragment B**: adding bindings to the namespaces given to
    `find_missing_imports` only removes names from the report. -/
theorem findMissing_mono_fragB (fx : Fixes) (reg : Registry) (builtins : Scope) (a b : List Scope) (prog : List Stmt)
    (D : Bool) (hfr : fragB D prog = true) (h : ScopesExt a b) :
    ∀ d ∈ findMissingFx fx reg builtins b prog, d ∈ findMissingFx fx reg builtins a prog := by
  intro d hd
  unfold findMissingFx analyzeFx at hd ⊢
  rw [mem_sortedSet, List.mem_map] at hd ⊢
  obtain ⟨m, hm, rfl⟩ := hd
  have hsim := Sim.runOps reg (cStmts fx 0 prog) (sim_init builtins a b h) (cStmts_opB fx D prog 0 hfr)
  obtain ⟨m', hm', hn⟩ := hsim.finish reg m hm
  exact ⟨m', hm', hn⟩

/-! ### with an empty registry, a reported name has an unbound head -/

theorem sni_empty_head {heap : Heap} {ids : List Nat} {d : Str}
    (h : (symbolNeedsImport {} heap ids d).1 = true) : ∀ i ∈ normIds ids, (heap.get i).get (headOf d) = none := by
  rw [symbolNeedsImport_spec] at h
  intro i hi
  cases hg : (heap.get i).get (headOf d) with
  | none => rfl
  | some var =>
    exfalso
    obtain ⟨x, r, hps⟩ : ∃ x r, splitDots d = x :: r := by
      cases h' : splitDots d with
      | nil => exact absurd h' (splitDots_ne_nil d)
      | cons x r => exact ⟨x, r, rfl⟩
    have hhead : headOf d = x := by unfold headOf; rw [hps]; rfl
    have hmem : [x] ∈ PyCore.prefixes (splitDots d) := by rw [hps]; simp [PyCore.prefixes]
    obtain ⟨_, _, _, _, _, _, _, hreg, _⟩ := h i hi [x] hmem var (by simpa [joinDots, hhead] using hg)
    simp [Registry.get, assocGet] at hreg

/-- invariant of the analysis (empty registry) of fragment-B actions started in `st0` -/
structure HU (st0 st : AState) : Prop where
  stack : st.stack = st0.stack
  cells : ∀ i, i ≠ st0.stack.top → st.heap.get i = st0.heap.get i
  inFunc : st.inFunc = false
  miss : ∀ m ∈ st.missing, ∀ i ∈ normIds st0.stack.ids, i ≠ st0.stack.top → (st0.heap.get i).get (headOf m.name) = none
  defer : ∀ d ∈ st.deferred, d.ids = st0.stack.ids

theorem HU.storeTop {st0 st : AState} (h : HU st0 st) (k : Str) : HU st0 (storeTop st k) := by
  refine ⟨h.stack, fun i hi => ?_, h.inFunc, h.miss, h.defer⟩
  simp only [PyCore.storeTop, Heap.get_update, h.stack]
  rw [if_neg (fun hc => hi hc.1)]
  exact h.cells i hi

theorem HU.storeKeys {st0 : AState} : ∀ (keys : List Str) {st : AState}, HU st0 st → HU st0 (keys.foldl PyCore.storeTop st)
  | [], _, h => h
  | k :: ks, _, h => HU.storeKeys ks (h.storeTop k)

theorem HU.deferGlobals {st0 : AState} : ∀ (ns : List Str) {st : AState}, HU st0 st →
    HU st0 (ns.foldl (PyCore.deferGlobal {}) st)
  | [], _, h => h
  | n :: ns, st, h => by
    apply HU.deferGlobals ns
    obtain ⟨a1, a2, a3, a4, _, a6, _⟩ := deferGlobal_shape {} st n
    refine ⟨a2.trans h.stack, by rw [a1]; exact h.cells, a3.trans h.inFunc, by rw [a4]; exact h.miss, fun d hd => ?_⟩
    rcases a6 d hd with hd | ⟨_, hi, _⟩
    · exact h.defer d hd
    · rw [hi, h.stack]

theorem HU.step {st0 st : AState} (h : HU st0 st) (op : Op) (hop : opB op = true) : HU st0 (step {} st op) := by
  cases op with
  | setLine n => exact ⟨h.stack, h.cells, h.inFunc, h.miss, h.defer⟩
  | load n =>
    simp only [PyCore.step, h.inFunc, Bool.false_eq_true, ↓reduceIte]
    obtain ⟨a1, a2, a3, a4, _, a6, _⟩ := checkLoad_shape {} st n st.stack.ids st.line
    refine ⟨a2.trans h.stack, by rw [a1]; exact h.cells, a3.trans h.inFunc, fun m hm i hi hne => ?_, by rw [a4]; exact h.defer⟩
    rcases a6 m hm with hm | ⟨hn, hs, _⟩
    · exact h.miss m hm i hi hne
    · rw [h.stack] at hs
      have := sni_empty_head hs i hi
      rw [h.cells i hne] at this
      rw [hn]; exact this
  | store n => exact h.storeTop _
  | allNames ns =>
    simp only [PyCore.step, h.inFunc, Bool.false_eq_true, ↓reduceIte]
    exact HU.deferGlobals _ h
  | importAlias ks bd i p => exact HU.storeKeys _ h
  | _ => simp [opB] at hop

theorem HU.runOps {st0 : AState} : ∀ (ops : List Op) {st : AState}, HU st0 st → (∀ op ∈ ops, opB op = true) →
    HU st0 (runOps {} st ops)
  | [], _, h, _ => h
  | op :: ops, _, h, hops => by
    rw [runOps_cons]
    exact HU.runOps ops (h.step op (hops op List.mem_cons_self)) (fun o ho => hops o (List.mem_cons_of_mem _ ho))

theorem HU.finish {st0 st : AState} (h : HU st0 st) :
    ∀ m ∈ (finishDeferred {} st).missing, ∀ i ∈ normIds st0.stack.ids, i ≠ st0.stack.top →
      (st0.heap.get i).get (headOf m.name) = none := by
  intro m hm i hi hne
  rw [finishDeferred_missing] at hm
  obtain ⟨_, _, b3, _⟩ := foldCheck_spec {} st.deferred st
  rcases b3 m hm with hm | ⟨d, hd, hn, hs, _⟩
  · exact h.miss m hm i hi hne
  · rw [h.defer d hd] at hs
    have := sni_empty_head hs i hi
    rw [h.cells i hne] at this
    rw [hn]; exact this

/-- With an empty registry (`sys.modules` plays no role), on fragment B, the head of every reported name is bound in
    none of the caller's namespaces. -/
theorem reported_head_unbound (fx : Fixes) (builtins : Scope) (ns : List Scope) (prog : List Stmt) (D : Bool)
    (hfr : fragB D prog = true) (hnc : ∀ sc ∈ ns, sc.isClass = false) :
    ∀ d ∈ findMissingFx fx {} builtins ns prog, ∀ sc ∈ ns, sc.get (headOf d) = none := by
  intro d hd sc hsc
  unfold findMissingFx analyzeFx at hd
  rw [mem_sortedSet, List.mem_map] at hd
  obtain ⟨m, hm, rfl⟩ := hd
  have h0 : HU (initState builtins ns) (initState builtins ns) :=
    ⟨rfl, fun _ _ => rfl, rfl, fun m hm => by simp [initState] at hm, fun d hd => by simp [initState] at hd⟩
  have hfin := (HU.runOps (cStmts fx 0 prog) h0 (cStmts_opB fx D prog 0 hfr)).finish m hm
  obtain ⟨a, ha, rfl⟩ := List.getElem_of_mem hsc
  have := hfin (3 + a) ((init_ids_mem builtins ns hnc _).mpr (.inr (.inr (.inl ⟨a, ha, rfl⟩))))
    (by rw [init_top]; omega)
  rw [initHeap_user' builtins ns a ha] at this
  exact this

/-! ### the namespaces of the auto-import model as namespaces of the analysis model -/

/-- a namespace of the auto-import model seen by `find_missing_imports`: same keys in the same order, the object with
    identity `o` is the value `Val.obj o` -/
def toScope (ns : AutoImp.NS) : Scope := { items := ns.map (fun kv => (kv.1, Val.obj kv.2)) }

def toScopes (nss : List AutoImp.NS) : List Scope := nss.map toScope

theorem toScope_get (ns : AutoImp.NS) (k : Str) : (toScope ns).get k = (ns.lookup k).map Val.obj := by
  induction ns with
  | nil => rfl
  | cons a r ih =>
    obtain ⟨k', v⟩ := a
    have ih' : assocGet k (r.map (fun kv => (kv.1, Val.obj kv.2))) = (r.lookup k).map Val.obj := ih
    simp only [toScope, Scope.get, List.map_cons, assocGet, List.lookup_cons]
    by_cases h : k' = k
    · subst h; simp
    · have : (k == k') = false := by simpa using fun hc => h hc.symm
      rw [if_neg h, this, ih']

theorem toScopes_getD (nss : List AutoImp.NS) (i : Nat) : (toScopes nss).getD i {} = toScope (AutoImp.getNs nss i) := by
  simp only [toScopes, AutoImp.getNs, List.getD_eq_getElem?_getD, List.getElem?_map]
  cases nss[i]? with
  | none => rfl
  | some ns => rfl

theorem scopesExt_of_frame {a b : List AutoImp.NS} (h : AutoImp.Frame a b) : ScopesExt (toScopes a) (toScopes b) := by
  refine ⟨by simp [toScopes, h.1], fun i => ?_⟩
  rw [toScopes_getD, toScopes_getD]
  refine ⟨rfl, fun k v hv => ?_⟩
  rw [toScope_get] at hv ⊢
  cases hl : (AutoImp.getNs a i).lookup k with
  | none => rw [hl] at hv; cases hv
  | some o => rw [hl] at hv; rw [h.2 i k o hl]; exact hv

/-- **C07_runs_fragB.**  For every program of fragment B (straight-line module-level code with imports; dotted reads when
    `D = true`), every import universe, database keyed by `import_as`, registry, builtins scope and non-empty namespace
    stack: if `auto_import`, given the list of names that `find_missing_imports` reports for the program against these
    namespaces, reports success, then the reference execution of the program from ANY run-time state that binds
    exactly the names of the resulting namespaces raises no NameError, whatever the fuel. -/
theorem C07_runs_fragB {W : Type} (U : AutoImp.Univ W) (db : AutoImp.DB) (hdb : AutoImp.DbKeyed db)
    (fx : Fixes) (reg : Registry) (builtins : Scope) (prog : List Stmt) (D : Bool) (hfr : fragB D prog = true)
    (st st' : AutoImp.State W) (hnss : st.nss ≠ [])
    (h : AutoImp.autoImport U db (some ((findMissingFx fx reg builtins (toScopes st.nss) prog).map splitDots)) st
          = (.ok true, st'))
    (s0' : XState) (fuel : Nat) (hag : Agree builtins (toScopes st'.nss) s0')
    (hdf : D = true → nsDotFree builtins (toScopes st'.nss) = true) :
    (runProgram fuel prog [] s0').1.ne = [] := by
  rw [List.eq_nil_iff_forall_not_mem]
  intro n hn
  -- the NameError'd name is bound in none of the resulting namespaces (soundness of the analysis with an empty registry)
  obtain ⟨d0, hd0, hh0, _⟩ := C05_sound_fragB fx {} builtins _ prog s0' fuel D hfr hag hdf n hn
  have hunb := reported_head_unbound fx builtins _ prog D hfr hag.noClass d0 hd0
  rw [hh0] at hunb
  -- it is the head of a name reported against the resulting namespaces, hence against the original ones
  obtain ⟨d, hd, hh, _⟩ := C05_sound_fragB fx reg builtins _ prog s0' fuel D hfr hag hdf n hn
  have hframe : AutoImp.Frame st.nss st'.nss := by
    have hf := (AutoImp.reach_foldSyms U db
      ((findMissingFx fx reg builtins (toScopes st.nss) prog).map splitDots) true st).frame
    have he : AutoImp.foldSyms U db ((findMissingFx fx reg builtins (toScopes st.nss) prog).map splitDots) true st
        = (.ok true, st') := h
    rw [he] at hf
    exact hf
  have hd1 := findMissing_mono_fragB fx reg builtins _ _ prog D hfr (scopesExt_of_frame hframe) d hd
  -- so auto-import bound its head
  obtain ⟨x, hx, ns, hns, hsome⟩ := C07_success_heads_bound U db hdb _ st st' hnss
    (by intro d hd; obtain ⟨y, _, rfl⟩ := List.mem_map.mp hd; exact splitDots_ne_nil y) h
    (splitDots d) (List.mem_map.mpr ⟨d, hd1, rfl⟩)
  have hxn : x = n := by
    rw [← hh]; unfold headOf
    cases hs : splitDots d with
    | nil => rw [hs] at hx; cases hx
    | cons y r => rw [hs] at hx; simpa using hx.symm
  subst hxn
  have := hunb (toScope ns) (List.mem_map.mpr ⟨ns, hns, rfl⟩)
  rw [toScope_get] at this
  cases hl : ns.lookup x with
  | none => rw [hl] at hsome; cases hsome
  | some o => rw [hl] at this; cases this

/-! ## fragment G: comprehensions at module level -/

/-- the visitor actions of fragment G: those of fragment B and the scope brackets of a comprehension -/
def opG (op : Op) : Bool :=
  opB op || (match op with
    | .pushScope _ _ false => true
    | .popScope => true
    | _ => false)

theorem opG_of_opB {op : Op} (h : opB op = true) : opG op = true := by simp [opG, h]

theorem loads_opG {L : List Str} : ∀ op ∈ L.map Op.load, opG op = true := by
  intro op h
  obtain ⟨d, _, rfl⟩ := List.mem_map.mp h
  rfl

theorem comp_opG (fx : Fixes) (k : CompKind) (elts : List Expr) (x : Str) (it : Expr) (ifs : List Expr)
    (hit : fragBExpr false it = true) (hifs : fragBExprs false ifs = true) (hel : fragBExprs false elts = true) :
    ∀ op ∈ cExpr fx (.comp k elts [.mk (.name x) it ifs]), opG op = true := by
  cases hcs : fx.compScope with
  | false =>
    have hops : cExpr fx (.comp k elts [.mk (.name x) it ifs]) =
        [Op.pushScope true false false] ++ (loadsOf it).map Op.load ++ [Op.store x]
          ++ (loadsOfs ifs ++ loadsOfs elts).map Op.load ++ [Op.popScope] := by
      simp only [cExpr, hcs, cGens, cTarget, cExpr_loads fx false it hit, cExprs_loads fx false elts hel,
        cExprs_loads fx false ifs hifs, List.append_nil, List.append_assoc, Bool.false_eq_true, if_false, List.map_append]
    rw [hops]
    intro op h
    simp only [List.mem_append, List.mem_singleton] at h
    rcases h with (((rfl | h) | rfl) | h) | rfl
    · rfl
    · exact loads_opG op h
    · rfl
    · exact loads_opG op h
    · rfl
  | true =>
    have hops : cExpr fx (.comp k elts [.mk (.name x) it ifs]) =
        (loadsOf it).map Op.load ++ ([Op.pushScope false false false] ++ ([] : List Str).map Op.load ++ [Op.store x]
          ++ (loadsOfs ifs ++ loadsOfs elts).map Op.load ++ [Op.popScope]) := by
      simp only [cExpr, hcs, cGens, cTarget, cExpr_loads fx false it hit, cExprs_loads fx false elts hel,
        cExprs_loads fx false ifs hifs, List.append_nil, List.append_assoc, if_true, List.map_nil, List.map_append]
    rw [hops]
    intro op h
    simp only [List.mem_append, List.mem_singleton, List.map_nil, List.not_mem_nil, or_false] at h
    rcases h with h | (((rfl | rfl) | h) | rfl)
    · exact loads_opG op h
    · rfl
    · rfl
    · exact loads_opG op h
    · rfl

mutual
  theorem cExpr_opG (fx : Fixes) : ∀ e : Expr, fragGExpr e = true → ∀ op ∈ cExpr fx e, opG op = true
    | .name n, _, op, h => by simp [cExpr] at h; subst h; rfl
    | .const, _, op, h => by simp [cExpr] at h
    | .bool _, _, op, h => by simp [cExpr] at h
    | .str _, _, op, h => by simp [cExpr] at h
    | .binop l r, hfr, op, h => by
      simp only [fragGExpr, Bool.and_eq_true] at hfr
      simp only [cExpr, List.mem_append] at h
      rcases h with h | h
      · exact cExpr_opG fx l hfr.1 op h
      · exact cExpr_opG fx r hfr.2 op h
    | .ifExp t a b, hfr, op, h => by
      simp only [fragGExpr, Bool.and_eq_true] at hfr
      simp only [cExpr, List.mem_append] at h
      rcases h with (h | h) | h
      · exact cExpr_opG fx t hfr.1.1 op h
      · exact cExpr_opG fx a hfr.1.2 op h
      · exact cExpr_opG fx b hfr.2 op h
    | .tuple es, hfr, op, h => by
      simp only [fragGExpr] at hfr; simp only [cExpr] at h; exact cExprs_opG fx es hfr op h
    | .list es, hfr, op, h => by
      simp only [fragGExpr] at hfr; simp only [cExpr] at h; exact cExprs_opG fx es hfr op h
    | .subscript v i, hfr, op, h => by
      simp only [fragGExpr, Bool.and_eq_true] at hfr
      simp only [cExpr, List.mem_append] at h
      rcases h with h | h
      · exact cExpr_opG fx v hfr.1 op h
      · exact cExpr_opG fx i hfr.2 op h
    | .comp k elts gens, hfr, op, h => by
      simp only [fragGExpr] at hfr
      obtain ⟨x, it, ifs, rfl, _, hit, hifs, hel⟩ := compOK_parts hfr
      exact comp_opG fx k elts x it ifs hit hifs hel op h
    | .attr _ _, hfr, _, _ => by simp [fragGExpr] at hfr
    | .call _ _, hfr, _, _ => by simp [fragGExpr] at hfr
    | .lambda _ _, hfr, _, _ => by simp [fragGExpr] at hfr
  theorem cExprs_opG (fx : Fixes) : ∀ es : List Expr, fragGExprs es = true → ∀ op ∈ cExprs fx es, opG op = true
    | [], _, op, h => by simp [cExprs] at h
    | e :: es, hfr, op, h => by
      simp only [fragGExprs, Bool.and_eq_true] at hfr
      simp only [cExprs, List.mem_append] at h
      rcases h with h | h
      · exact cExpr_opG fx e hfr.1 op h
      · exact cExprs_opG fx es hfr.2 op h
end

theorem cStmt_opG (fx : Fixes) : ∀ (s : Stmt) (ln : Nat), fragGStmt s = true → ∀ op ∈ cStmt fx ln s, opG op = true
  | .expr e, ln, hfr, op, h => by
    simp only [cStmt] at h
    exact cExpr_opG fx e (by simpa [fragGStmt] using hfr) op h
  | .assign ts e, ln, hfr, op, h => by
    simp only [fragGStmt, Bool.and_eq_true] at hfr
    cases hsn : singleName ts with
    | none => rw [hsn] at hfr; simp at hfr
    | some x =>
      have hts := singleName_eq hsn
      subst hts
      simp only [cStmt, List.mem_append] at h
      rcases h with (h | h) | h
      · exact cExpr_opG fx e hfr.2 op h
      · simp [cTargets, cTarget] at h; subst h; rfl
      · rcases cAll_cases x e with h0 | ⟨_, ns, h1⟩
        · rw [h0] at h; simp at h
        · rw [h1] at h; simp at h; subst h; rfl
  | .pass, ln, _, op, h => by simp [cStmt] at h
  | .import_ names, ln, _, op, h => by simp only [cStmt] at h; exact opG_of_opB (cAliases_opB _ names 0 op h)
  | .importFrom _ names, ln, _, op, h => by simp only [cStmt] at h; exact opG_of_opB (cAliases_opB _ names 0 op h)
  | .located l s, ln, hfr, op, h => by
    simp only [cStmt, List.mem_cons] at h
    rcases h with rfl | h
    · rfl
    · exact cStmt_opG fx s l (by simpa [fragGStmt] using hfr) op h
  | .augAssign _ _, _, hfr, _, _ => by simp [fragGStmt] at hfr
  | .annAssign _ _ _, _, hfr, _, _ => by simp [fragGStmt] at hfr
  | .funcDef _ _ _ _ _, _, hfr, _, _ => by simp [fragGStmt] at hfr
  | .classDef _ _ _ _, _, hfr, _, _ => by simp [fragGStmt] at hfr
  | .for_ _ _ _ _, _, hfr, _, _ => by simp [fragGStmt] at hfr
  | .while_ _ _ _, _, hfr, _, _ => by simp [fragGStmt] at hfr
  | .if_ _ _ _, _, hfr, _, _ => by simp [fragGStmt] at hfr
  | .with_ _ _, _, hfr, _, _ => by simp [fragGStmt] at hfr
  | .try_ _ _ _ _, _, hfr, _, _ => by simp [fragGStmt] at hfr
  | .return_ _, _, hfr, _, _ => by simp [fragGStmt] at hfr
  | .raise_ _, _, hfr, _, _ => by simp [fragGStmt] at hfr
  | .delete _, _, hfr, _, _ => by simp [fragGStmt] at hfr
  | .global_ _, _, hfr, _, _ => by simp [fragGStmt] at hfr
  | .nonlocal_ _, _, hfr, _, _ => by simp [fragGStmt] at hfr

theorem cStmts_opG (fx : Fixes) : ∀ (ss : List Stmt) (ln : Nat), fragG ss = true → ∀ op ∈ cStmts fx ln ss, opG op = true
  | [], _, _, op, h => by simp [cStmts] at h
  | s :: ss, ln, hfr, op, h => by
    simp only [fragG, List.all_cons, Bool.and_eq_true] at hfr
    simp only [cStmts, List.mem_append] at h
    rcases h with h | h
    · exact cStmt_opG fx s ln hfr.1 op h
    · exact cStmts_opG fx ss ln (by simpa [fragG] using hfr.2) op h

/-! ### the two-run simulation with scope brackets -/

theorem storeTop_keep (st : AState) (k : Str) :
    (storeTop st k).saved = st.saved ∧ ∀ i, ((storeTop st k).heap.get i).isClass = (st.heap.get i).isClass := by
  refine ⟨rfl, fun i => ?_⟩
  simp only [PyCore.storeTop, Heap.get_update]
  split
  · rename_i hc; rw [hc.1]; rfl
  · rfl

theorem storeKeys_keep : ∀ (keys : List Str) (st : AState),
    (keys.foldl PyCore.storeTop st).saved = st.saved ∧
      ∀ i, ((keys.foldl PyCore.storeTop st).heap.get i).isClass = (st.heap.get i).isClass
  | [], _ => ⟨rfl, fun _ => rfl⟩
  | k :: ks, st => by
    obtain ⟨h1, h2⟩ := storeKeys_keep ks (PyCore.storeTop st k)
    obtain ⟨g1, g2⟩ := storeTop_keep st k
    exact ⟨h1.trans g1, fun i => (h2 i).trans (g2 i)⟩

theorem deferGlobals_keep (reg : Registry) : ∀ (ns : List Str) (st : AState),
    (ns.foldl (PyCore.deferGlobal reg) st).saved = st.saved ∧ (ns.foldl (PyCore.deferGlobal reg) st).heap = st.heap
  | [], _ => ⟨rfl, rfl⟩
  | n :: ns, st => by
    obtain ⟨h1, h2⟩ := deferGlobals_keep reg ns (PyCore.deferGlobal reg st n)
    have g : (PyCore.deferGlobal reg st n).saved = st.saved ∧ (PyCore.deferGlobal reg st n).heap = st.heap := by
      unfold PyCore.deferGlobal; dsimp only; split <;> exact ⟨rfl, rfl⟩
    exact ⟨h1.trans g.1, h2.trans g.2⟩

/-- a fragment-B action outside a function body keeps the saved stacks and the kinds of the heap cells -/
theorem opB_keep (reg : Registry) (st : AState) (op : Op) (hop : opB op = true) (hf : st.inFunc = false) :
    (step reg st op).saved = st.saved ∧ ∀ i, ((step reg st op).heap.get i).isClass = (st.heap.get i).isClass := by
  cases op with
  | setLine n => exact ⟨rfl, fun _ => rfl⟩
  | load n =>
    simp only [PyCore.step, hf, Bool.false_eq_true, ↓reduceIte]
    exact ⟨(checkLoad_saved reg st n _ _).1, fun i => by rw [(checkLoad_shape reg st n st.stack.ids st.line).1]⟩
  | store n => exact storeTop_keep st n
  | allNames ns =>
    simp only [PyCore.step, hf, Bool.false_eq_true, ↓reduceIte]
    obtain ⟨h1, h2⟩ := deferGlobals_keep reg ns st
    exact ⟨h1, fun i => by rw [h2]⟩
  | importAlias ks bd i p => exact storeKeys_keep ks st
  | _ => simp [opB] at hop

structure SimG (a b : AState) : Prop where
  sim : Sim a b
  saved : b.saved = a.saved
  cls : ∀ i, (b.heap.get i).isClass = (a.heap.get i).isClass

theorem withNewScope_congr (s : StackRef) {h1 h2 : Heap} (hc : ∀ i, (h2.get i).isClass = (h1.get i).isClass)
    (ic : Bool) (newId : Nat) : s.withNewScope h2 ic false newId = s.withNewScope h1 ic false newId := by
  unfold StackRef.withNewScope
  simp only [Bool.false_eq_true, false_and, if_false]
  congr 3
  split
  · rfl
  · apply List.filter_congr
    intro x _
    rw [hc x]

theorem Heap.get_snoc (h : Heap) (c : Scope) (j : Nat) :
    Heap.get (h ++ [c]) j = if j < h.length then h.get j else if j = h.length then c else {} := by
  by_cases hj : j < h.length
  · rw [if_pos hj, Heap.get_append_left _ _ hj]
  · rw [if_neg hj]
    by_cases he : j = h.length
    · rw [if_pos he, he, Heap.get_append_new]
    · rw [if_neg he, Heap.get_ge]
      simp only [List.length_append, List.length_singleton]; omega

theorem SimG.step (reg : Registry) {a b : AState} (h : SimG a b) (op : Op) (hop : opG op = true) :
    SimG (step reg a op) (step reg b op) := by
  by_cases hb : opB op = true
  · obtain ⟨a1, a2⟩ := opB_keep reg a op hb h.sim.inFuncA
    obtain ⟨b1, b2⟩ := opB_keep reg b op hb h.sim.inFuncB
    exact ⟨h.sim.step reg op hb, by rw [a1, b1]; exact h.saved, fun i => by rw [a2, b2]; exact h.cls i⟩
  · cases op with
    | pushScope ic nc uh =>
      cases uh with
      | true => simp [opG, opB] at hop
      | false =>
        simp only [PyCore.step]
        refine ⟨⟨?_, h.sim.inFuncA, h.sim.inFuncB, ?_, ?_, h.sim.miss, h.sim.defer⟩, ?_, ?_⟩
        · show b.stack.withNewScope b.heap ic false b.heap.length = a.stack.withNewScope a.heap ic false a.heap.length
          rw [h.sim.stack, h.sim.len, withNewScope_congr a.stack h.cls]
        · simp [h.sim.len]
        · intro i k v hv
          simp only [Heap.get_snoc] at hv ⊢
          rw [h.sim.len]
          split
          · rename_i hc; rw [if_pos hc] at hv; exact h.sim.ext _ _ _ hv
          · rename_i hc; rw [if_neg hc] at hv; exact hv
        · show b.stack :: b.saved = a.stack :: a.saved
          rw [h.sim.stack, h.saved]
        · intro i
          simp only [Heap.get_snoc]
          rw [h.sim.len]
          split
          · exact h.cls i
          · rfl
    | popScope =>
      simp only [PyCore.step, AState.emit]
      rw [h.saved]
      cases hs : a.saved with
      | nil => exact ⟨⟨h.sim.stack, h.sim.inFuncA, h.sim.inFuncB, h.sim.len, h.sim.ext, h.sim.miss, h.sim.defer⟩,
          rfl, h.cls⟩
      | cons s r => exact ⟨⟨rfl, h.sim.inFuncA, h.sim.inFuncB, h.sim.len, h.sim.ext, h.sim.miss, h.sim.defer⟩, rfl, h.cls⟩
    | _ => simp [opG, opB] at hop hb ⊢

theorem SimG.runOps (reg : Registry) : ∀ (ops : List Op) {a b : AState}, SimG a b → (∀ op ∈ ops, opG op = true) →
    SimG (runOps reg a ops) (runOps reg b ops)
  | [], _, _, h, _ => h
  | op :: ops, _, _, h, hops => by
    rw [runOps_cons, runOps_cons]
    exact SimG.runOps reg ops (h.step reg op (hops op List.mem_cons_self)) (fun o ho => hops o (List.mem_cons_of_mem _ ho))

theorem simG_init (builtins : Scope) (a b : List Scope) (h : ScopesExt a b) :
    SimG (initState builtins a) (initState builtins b) := by
  refine ⟨sim_init builtins a b h, rfl, fun i => ?_⟩
  by_cases hi : i < 3
  · rw [← initHeap_get_lt3 builtins a b i hi]
  · obtain ⟨j, rfl⟩ : ∃ j, i = j + 3 := ⟨i - 3, by omega⟩
    rw [initHeap_get3, initHeap_get3]
    exact (h.2 j).1.symm

/-- **Monotonicity of the missing-name report on fragment G.** -/
theorem findMissing_mono_fragG (fx : Fixes) (reg : Registry) (builtins : Scope) (a b : List Scope) (prog : List Stmt)
    (hfr : fragG prog = true) (h : ScopesExt a b) :
    ∀ d ∈ findMissingFx fx reg builtins b prog, d ∈ findMissingFx fx reg builtins a prog := by
  intro d hd
  unfold findMissingFx analyzeFx at hd ⊢
  rw [mem_sortedSet, List.mem_map] at hd ⊢
  obtain ⟨m, hm, rfl⟩ := hd
  have hsim := SimG.runOps reg (cStmts fx 0 prog) (simG_init builtins a b h) (cStmts_opG fx prog 0 hfr)
  obtain ⟨m', hm', hn⟩ := hsim.sim.finish reg m hm
  exact ⟨m', hm', hn⟩

/-! ### with an empty registry, a reported name has an unbound head (with scope brackets) -/

/-- a stack that may be restored later: normalised, its top private, its cells allocated, the caller's cells on it -/
def StackGood (n0 hl : Nat) (s : StackRef) : Prop :=
  normIds s.ids = s.ids ∧ n0 ≤ s.top ∧ (∀ i ∈ s.ids, i < hl) ∧ (∀ i, 3 ≤ i → i < n0 → i ∈ s.ids)

structure HG (n0 : Nat) (H0 : Heap) (st : AState) : Prop where
  inv : Inv {} n0 H0 st
  inFunc : st.inFunc = false
  userIn : ∀ i, 3 ≤ i → i < n0 → i ∈ st.stack.ids
  saved : ∀ s ∈ st.saved, StackGood n0 st.heap.length s
  miss : ∀ m ∈ st.missing, ∀ i, 3 ≤ i → i < n0 → (H0.get i).get (headOf m.name) = none
  defer : ∀ d ∈ st.deferred, ∀ i, 3 ≤ i → i < n0 → i ∈ d.ids

theorem HG.of {n0 : Nat} {H0 : Heap} {st st' : AState} (h : HG n0 H0 st) (hinv : Inv {} n0 H0 st')
    (hres : Restores st st') (hf : st'.inFunc = false)
    (hm : ∀ m ∈ st'.missing, ∀ i, 3 ≤ i → i < n0 → (H0.get i).get (headOf m.name) = none)
    (hd : ∀ d ∈ st'.deferred, ∀ i, 3 ≤ i → i < n0 → i ∈ d.ids) : HG n0 H0 st' := by
  refine ⟨hinv, hf, by rw [hres.stack]; exact h.userIn, ?_, hm, hd⟩
  intro s hs
  rw [hres.saved] at hs
  obtain ⟨g1, g2, g3, g4⟩ := h.saved s hs
  exact ⟨g1, g2, fun i hi => Nat.lt_of_lt_of_le (g3 i hi) hres.heap, g4⟩

theorem user_cell {n0 : Nat} {H0 : Heap} {st : AState} (h : Inv {} n0 H0 st) {i : Nat} (h3 : 3 ≤ i) (hi : i < n0) :
    st.heap.get i = H0.get i :=
  h.user i hi (by unfold delayedId; omega)

theorem deferGlobals_defer (reg : Registry) : ∀ (ns : List Str) (st : AState),
    (ns.foldl (PyCore.deferGlobal reg) st).missing = st.missing ∧
    (ns.foldl (PyCore.deferGlobal reg) st).inFunc = st.inFunc ∧
    ∀ d ∈ (ns.foldl (PyCore.deferGlobal reg) st).deferred, d ∈ st.deferred ∨ d.ids = st.stack.ids
  | [], _ => ⟨rfl, rfl, fun _ h => .inl h⟩
  | n :: ns, st => by
    obtain ⟨h1, h2, h3⟩ := deferGlobals_defer reg ns (PyCore.deferGlobal reg st n)
    obtain ⟨_, a2, a3, a4, _, a6, _⟩ := deferGlobal_shape reg st n
    refine ⟨h1.trans a4, h2.trans a3, fun d hd => ?_⟩
    rcases h3 d hd with hd | hd
    · rcases a6 d hd with hd | ⟨_, hi, _⟩
      · exact .inl hd
      · exact .inr hi
    · exact .inr (hd.trans (by rw [a2]))

theorem HG.step {n0 : Nat} {H0 : Heap} (hcls : ∀ i, 3 ≤ i → i < n0 → (H0.get i).isClass = false)
    {st : AState} (h : HG n0 H0 st) (op : Op) (hop : opG op = true) : HG n0 H0 (step {} st op) := by
  cases op with
  | setLine n =>
    obtain ⟨hi, hr⟩ := step_setLine n st h.inv
    exact h.of hi hr h.inFunc h.miss h.defer
  | load n =>
    obtain ⟨hi, hr⟩ := step_load n st h.inv
    have he : PyCore.step {} st (.load n) = checkLoad {} st n st.stack.ids st.line := by
      simp only [PyCore.step, h.inFunc, Bool.false_eq_true, ↓reduceIte]
    rw [he] at hi hr ⊢
    obtain ⟨_, _, a3, a4, _, a6, _⟩ := checkLoad_shape {} st n st.stack.ids st.line
    refine h.of hi hr (a3.trans h.inFunc) (fun m hm i h3 hlt => ?_) (by rw [a4]; exact h.defer)
    rcases a6 m hm with hm | ⟨hn, hs, _⟩
    · exact h.miss m hm i h3 hlt
    · have := sni_empty_head hs i (mem_normIds_iff.mpr (.inr (.inr (h.userIn i h3 hlt))))
      rw [user_cell h.inv h3 hlt] at this
      rw [hn]; exact this
  | store n =>
    obtain ⟨hi, hr⟩ := step_store n st h.inv
    exact h.of hi hr h.inFunc h.miss h.defer
  | allNames ns =>
    obtain ⟨hi, hr⟩ := step_allNames ns st h.inv
    have he : PyCore.step {} st (.allNames ns) = ns.foldl (PyCore.deferGlobal {}) st := by
      simp only [PyCore.step, h.inFunc, Bool.false_eq_true, ↓reduceIte]
    rw [he] at hi hr ⊢
    obtain ⟨d1, d2, d3⟩ := deferGlobals_defer {} ns st
    refine h.of hi hr (d2.trans h.inFunc) (by rw [d1]; exact h.miss) (fun d hd i h3 hlt => ?_)
    rcases d3 d hd with hd | hd
    · exact h.defer d hd i h3 hlt
    · rw [hd]; exact h.userIn i h3 hlt
  | importAlias ks bd ix p =>
    obtain ⟨hi, hr⟩ := step_importAlias ks bd ix p st h.inv
    obtain ⟨_, _, k3, k4, k5, _⟩ := storeKeys_get ks st h.inv.top_lt
    exact h.of hi hr (k3.trans h.inFunc) (by show ∀ m ∈ (ks.foldl PyCore.storeTop st).missing, _; rw [k4]; exact h.miss)
      (by show ∀ d ∈ (ks.foldl PyCore.storeTop st).deferred, _; rw [k5]; exact h.defer)
  | pushScope ic nc uh =>
    cases uh with
    | true => simp [opG, opB] at hop
    | false =>
      obtain ⟨hi, hsv, hl, _, _⟩ := inv_push h.inv ic nc false
      refine ⟨hi, h.inFunc, fun i h3 hlt => ?_, fun s hs => ?_, h.miss, h.defer⟩
      · show i ∈ (st.stack.withNewScope st.heap ic false st.heap.length).ids
        unfold StackRef.withNewScope
        simp only [Bool.false_eq_true, false_and, if_false]
        apply mem_normIds_iff.mpr
        refine .inr (.inr (List.mem_append_left _ ?_))
        split
        · exact h.userIn i h3 hlt
        · exact List.mem_filter.mpr ⟨h.userIn i h3 hlt, by rw [user_cell h.inv h3 hlt, hcls i h3 hlt]; rfl⟩
      · rw [hsv] at hs
        rw [hl]
        rcases List.mem_cons.mp hs with rfl | hs
        · exact ⟨h.inv.wf, h.inv.top_ge, fun i hi' => Nat.lt_succ_of_lt (h.inv.ids_lt i hi'), h.userIn⟩
        · obtain ⟨g1, g2, g3, g4⟩ := h.saved s hs
          exact ⟨g1, g2, fun i hi' => Nat.lt_succ_of_lt (g3 i hi'), g4⟩
  | popScope =>
    have hes : ∀ e ∈ (st.heap.get st.stack.top).items.map (fun kv => Effect.truth kv.2), EffectOK {} n0 e := by
      intro e he
      obtain ⟨kv, hkv, rfl⟩ := List.mem_map.mp he
      exact h.inv.priv _ (.inr h.inv.top_ge) kv hkv
    have hie := h.inv.emit hes
    cases hs : st.saved with
    | nil =>
      have he : PyCore.step {} st .popScope = st.emit ((st.heap.get st.stack.top).items.map (fun kv => Effect.truth kv.2)) := by
        simp only [PyCore.step, AState.emit, hs]
      rw [he]
      exact ⟨hie, h.inFunc, h.userIn, h.saved, h.miss, h.defer⟩
    | cons s r =>
      have he : PyCore.step {} st .popScope =
          { st.emit ((st.heap.get st.stack.top).items.map (fun kv => Effect.truth kv.2)) with stack := s, saved := r } := by
        simp only [PyCore.step, AState.emit, hs]
      rw [he]
      obtain ⟨g1, g2, g3, g4⟩ := h.saved s (by rw [hs]; exact List.mem_cons_self)
      refine ⟨⟨hie.user, hie.priv, g2, g3, g1, hie.log, hie.n3⟩, h.inFunc, g4, fun s' hs' => ?_, h.miss, h.defer⟩
      exact h.saved s' (by rw [hs]; exact List.mem_cons_of_mem _ hs')
  | _ => simp [opG, opB] at hop

theorem HG.runOps {n0 : Nat} {H0 : Heap} (hcls : ∀ i, 3 ≤ i → i < n0 → (H0.get i).isClass = false) :
    ∀ (ops : List Op) {st : AState}, HG n0 H0 st → (∀ op ∈ ops, opG op = true) → HG n0 H0 (runOps {} st ops)
  | [], _, h, _ => h
  | op :: ops, _, h, hops => by
    rw [runOps_cons]
    exact HG.runOps hcls ops (h.step hcls op (hops op List.mem_cons_self)) (fun o ho => hops o (List.mem_cons_of_mem _ ho))

theorem HG.finish {n0 : Nat} {H0 : Heap} {st : AState} (h : HG n0 H0 st) :
    ∀ m ∈ (finishDeferred {} st).missing, ∀ i, 3 ≤ i → i < n0 → (H0.get i).get (headOf m.name) = none := by
  intro m hm i h3 hlt
  rw [finishDeferred_missing] at hm
  obtain ⟨_, _, b3, _⟩ := foldCheck_spec {} st.deferred st
  rcases b3 m hm with hm | ⟨d, hd, hn, hs, _⟩
  · exact h.miss m hm i h3 hlt
  · have := sni_empty_head hs i (mem_normIds_iff.mpr (.inr (.inr (h.defer d hd i h3 hlt))))
    rw [user_cell h.inv h3 hlt] at this
    rw [hn]; exact this

/-- fragment G: with an empty registry the head of every reported name is bound in none of the caller's namespaces -/
theorem reported_head_unbound_G (fx : Fixes) (builtins : Scope) (ns : List Scope) (prog : List Stmt)
    (hfr : fragG prog = true) (hnc : ∀ sc ∈ ns, sc.isClass = false) :
    ∀ d ∈ findMissingFx fx {} builtins ns prog, ∀ sc ∈ ns, sc.get (headOf d) = none := by
  intro d hd sc hsc
  unfold findMissingFx analyzeFx at hd
  rw [mem_sortedSet, List.mem_map] at hd
  obtain ⟨m, hm, rfl⟩ := hd
  have hinv := inv_init {} builtins ns
  have hcell : ∀ i, 3 ≤ i → i < 3 + ns.length → ∃ a, ∃ ha : a < ns.length, i = 3 + a ∧
      (initState builtins ns).heap.get i = ns[a] := by
    intro i h3 hlt
    obtain ⟨a, rfl⟩ : ∃ a, i = 3 + a := ⟨i - 3, by omega⟩
    exact ⟨a, by omega, rfl, initHeap_user' builtins ns a (by omega)⟩
  have hcls : ∀ i, 3 ≤ i → i < 3 + ns.length → ((initState builtins ns).heap.get i).isClass = false := by
    intro i h3 hlt
    obtain ⟨a, ha, _, hc⟩ := hcell i h3 hlt
    rw [hc]; exact hnc _ (List.getElem_mem ha)
  have h0 : HG (3 + ns.length) (initState builtins ns).heap (initState builtins ns) := by
    refine ⟨hinv, rfl, fun i h3 hlt => ?_, fun s hs => by simp [initState] at hs,
      fun m hm => by simp [initState] at hm, fun d hd => by simp [initState] at hd⟩
    rw [← hinv.wf]
    exact (init_ids_mem builtins ns hnc i).mpr (.inr (.inr (.inl ⟨i - 3, by omega, by omega⟩)))
  have hfin := (HG.runOps hcls (cStmts fx 0 prog) h0 (cStmts_opG fx prog 0 hfr)).finish m hm
  obtain ⟨a, ha, rfl⟩ := List.getElem_of_mem hsc
  have := hfin (3 + a) (by omega) (by omega)
  rw [initHeap_user' builtins ns a ha] at this
  exact this

/-- **C07_runs_fragG.**  `C07_runs_fragB` for fragment G (fragment B without dotted names, with single-generator
    comprehensions at module level).  Extra hypothesis (from `C05_sound_fragG`): the builtins namespace is not a
    `_ClassScope`. -/
theorem C07_runs_fragG {W : Type} (U : AutoImp.Univ W) (db : AutoImp.DB) (hdb : AutoImp.DbKeyed db)
    (fx : Fixes) (reg : Registry) (builtins : Scope) (prog : List Stmt) (hfr : fragG prog = true)
    (hb : builtins.isClass = false)
    (st st' : AutoImp.State W) (hnss : st.nss ≠ [])
    (h : AutoImp.autoImport U db (some ((findMissingFx fx reg builtins (toScopes st.nss) prog).map splitDots)) st
          = (.ok true, st'))
    (s0' : XState) (fuel : Nat) (hag : Agree builtins (toScopes st'.nss) s0') :
    (runProgram fuel prog [] s0').1.ne = [] := by
  rw [List.eq_nil_iff_forall_not_mem]
  intro n hn
  have hd0 := C05_sound_fragG fx {} builtins _ prog s0' fuel hfr hag hb n hn
  have hunb := reported_head_unbound_G fx builtins _ prog hfr hag.noClass n hd0
  have hd := C05_sound_fragG fx reg builtins _ prog s0' fuel hfr hag hb n hn
  have hframe : AutoImp.Frame st.nss st'.nss := by
    have hf := (AutoImp.reach_foldSyms U db
      ((findMissingFx fx reg builtins (toScopes st.nss) prog).map splitDots) true st).frame
    have he : AutoImp.foldSyms U db ((findMissingFx fx reg builtins (toScopes st.nss) prog).map splitDots) true st
        = (.ok true, st') := h
    rw [he] at hf
    exact hf
  have hd1 := findMissing_mono_fragG fx reg builtins _ _ prog hfr (scopesExt_of_frame hframe) n hd
  obtain ⟨x, hx, ns, hns, hsome⟩ := C07_success_heads_bound U db hdb _ st st' hnss
    (by intro d hd; obtain ⟨y, _, rfl⟩ := List.mem_map.mp hd; exact splitDots_ne_nil y) h
    (splitDots n) (List.mem_map.mpr ⟨n, hd1, rfl⟩)
  have hxn : x = headOf n := by
    unfold headOf
    cases hs : splitDots n with
    | nil => rw [hs] at hx; cases hx
    | cons y r => rw [hs] at hx; simpa using hx.symm
  subst hxn
  have := hunb (toScope ns) (List.mem_map.mpr ⟨ns, hns, rfl⟩)
  rw [toScope_get] at this
  cases hl : ns.lookup (headOf n) with
  | none => rw [hl] at hsome; cases hsome
  | some o => rw [hl] at this; cases this

/-! ### the hypotheses are satisfiable by a non-trivial input, and the conclusion is not empty there -/

namespace RunsEx
/-- `x = (np, a)` ; `y = (x, os.path, len)` -/
def prog : List Stmt :=
  [.located 1 (.assign [.name "x".toList] (.tuple [.name "np".toList, .name "a".toList])),
   .located 2 (.assign [.name "y".toList]
      (.tuple [.name "x".toList, .attr (.name "os".toList) "path".toList, .name "len".toList]))]
/-- `by_fullname_or_import_as` of `ImportDB("import numpy as np")` -/
def db : AutoImp.DB := [(["np".toList], [⟨["numpy".toList], ["np".toList]⟩])]
/-- one namespace binding `a` -/
def st : AutoImp.State Unit := ⟨[[("a".toList, 50)]], [], [], (), []⟩
def missing : List Str := findMissingFx {} {} exBuiltins (toScopes st.nss) prog
def st' : AutoImp.State Unit := (AutoImp.autoImport Witness.toyU db (some (missing.map splitDots)) st).2

theorem db_keyed : AutoImp.DbKeyed db := by
  intro k imps hl imp hi
  simp only [db, List.lookup_cons, List.lookup_nil] at hl
  split at hl
  · rename_i hk
    have hk' : k = ["np".toList] := by simpa using hk
    cases hl
    simp only [List.mem_singleton] at hi
    subst hi
    exact hk'.symm
  · cases hl

example : fragB true prog = true := by decide
example : missing = ["np".toList, "os.path".toList] := by decide
theorem success : AutoImp.autoImport Witness.toyU db (some (missing.map splitDots)) st = (.ok true, st') :=
  Prod.ext (by decide) rfl
example : st'.nss = [[("a".toList, 50), ("np".toList, 11), ("os".toList, 11)]] := by decide
/-- before the auto-import the run raises NameError on `np` … -/
example : (runProgram 100 prog [] (mkState exBuiltins (toScopes st.nss))).1.ne = ["np".toList] := by decide +kernel
/-- … after it, by `C07_runs_fragB`, on nothing -/
example : (runProgram 100 prog [] (mkState exBuiltins (toScopes st'.nss))).1.ne = [] :=
  C07_runs_fragB Witness.toyU db db_keyed {} {} exBuiltins prog true (by decide) st st' (by decide) success _ 100
    (agree_mk _ _ (by decide) (by decide)) (fun _ => by decide)
/-- the monotonicity lemma on this input: the report against the resulting namespaces (empty) is contained in the
    report against the original ones -/
example : findMissingFx {} {} exBuiltins (toScopes st'.nss) prog = [] := by decide

/-- fragment G: `x = [np for i in [a] if i]` ; `y = (x, os)` -/
def progG : List Stmt :=
  [.located 1 (.assign [.name "x".toList]
      (.comp .list [.name "np".toList] [.mk (.name "i".toList) (.list [.name "a".toList]) [.name "i".toList]])),
   .located 2 (.assign [.name "y".toList] (.tuple [.name "x".toList, .name "os".toList]))]
def missingG : List Str := findMissingFx {} {} exBuiltins (toScopes st.nss) progG
def stG' : AutoImp.State Unit := (AutoImp.autoImport Witness.toyU db (some (missingG.map splitDots)) st).2
example : fragG progG = true := by decide
example : missingG = ["np".toList, "os".toList] := by decide
theorem successG : AutoImp.autoImport Witness.toyU db (some (missingG.map splitDots)) st = (.ok true, stG') :=
  Prod.ext (by decide) rfl
example : (runProgram 100 progG [] (mkState exBuiltins (toScopes st.nss))).1.ne = ["np".toList] := by decide +kernel
example : (runProgram 100 progG [] (mkState exBuiltins (toScopes stG'.nss))).1.ne = [] :=
  C07_runs_fragG Witness.toyU db db_keyed {} {} exBuiltins progG (by decide) rfl st stG' (by decide) successG _ 100
    (agree_mk _ _ (by decide) (by decide))
end RunsEx

end Pfb.C07
