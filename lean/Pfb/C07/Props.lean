/-
  Pfb.C07.Props — C07 "Successful auto-import makes code runnable; ambiguity is never guessed".

  Model: `Pfb.AutoImp.Model` (shared with C06).  `C07_success_heads_bound`, `C07_provenance`,
  `C07_ambiguous`, `C07_unknown` hold for EVERY import universe; `C07_success_resolves` needs the
  explicit hypotheses `Sound` about the import system (see `Pfb.AutoImp.Resolve`).
  "No NameError" at run time = every name the code reads at top level is bound; with the list
  of missing names complete (C05), that is `HeadBound` for every missing name.
-/
import Pfb.AutoImp.Resolve
import Pfb.AutoImp.PyWorld
import Pfb.AutoImp.PySound
import Pfb.C06.Props
namespace Pfb.C07
open Pfb.AutoImp

variable {W : Type}

/-! ### C07_success_heads_bound -/

/-- **C07_success_heads_bound.**  If `auto_import` reports success, the head of every missing
    dotted name is bound in some namespace of the final stack (so reading it raises no NameError).
    Any universe, any database keyed by `import_as`, any non-empty stack. -/
theorem C07_success_heads_bound (U : Univ W) (db : DB) (hdb : DbKeyed db) (missing : List Dotted)
    (st st' : State W) (hnss : st.nss ≠ []) (hne : ∀ d ∈ missing, d ≠ [])
    (h : autoImport U db (some missing) st = (.ok true, st')) :
    ∀ d ∈ missing, HeadBound st'.nss d := by
  intro d hd
  obtain ⟨pre, post, rfl⟩ := List.append_of_mem hd
  obtain ⟨_, hall⟩ := foldSyms_true U db _ true st st' h
  obtain ⟨s, s1, _, hstep, hrest, hlen⟩ := hall pre d post rfl
  have hsn : s.nss ≠ [] := by
    intro he; rw [he] at hlen; simp at hlen
    exact hnss (List.eq_nil_of_length_eq_zero hlen.symm)
  have hb := autoImportSymbol_true_headBound U db hdb false d s s1 hsn (hne d hd) hstep
  have hfr := (reach_foldSyms U db post true s1).frame
  rw [hrest] at hfr
  exact hb.mono hfr

example : ∃ (U : Univ Unit) (db : DB) (st st' : State Unit),
    autoImport U db (some [[['a'], ['b']]]) st = (.ok true, st') ∧ st'.nss ≠ st.nss :=
  ⟨⟨fun _ _ => (some 7, ()), fun _ _ => (true, ()), fun _ p => if p = [['a']] then some 7 else none,
    fun _ _ _ => some 8⟩, [], ⟨[[]], [], [], (), []⟩, _, rfl, by decide⟩

/-! ### C07_success_resolves -/

/-- an entry that is not a plain `import a.b.c` binds a single name (`from m import n [as c]`, `import m as c`) -/
def DbShape (db : DB) : Prop :=
  ∀ k imps, db.lookup k = some imps → ∀ imp ∈ imps, imp.importAs ≠ imp.fullname → ∃ n, imp.importAs = [n]

section
variable {U : Univ W} {inv : W → Prop} {known : W → Obj → Prop} (hS : Sound U inv known)
include hS

theorem settles_of_walk {w : W} {ns : NS} {hd : Name} {tl : List Name} {v : Obj}
    (hl : ns.lookup hd = some v) (hw : walk U w v [hd] tl ≠ .missingAttr) : settles U w (hd :: tl) ns = true := by
  simp only [settles, hl]
  simpa using hw

omit hS in
theorem sni_false_of_binding {w : W} {nss : List NS} {i : Nat} {hd : Name} {tl : List Name} {v : Obj}
    (hi : i < nss.length) (hl : (getNs nss i).lookup hd = some v) (hw : walk U w v [hd] tl ≠ .missingAttr) :
    symbolNeedsImport U w nss (hd :: tl) = false := by
  refine (sni_false_iff U w nss _).2 ⟨getNs nss i, getNs_mem hi, ?_⟩
  simp only [settles, hl]
  simpa using hw

theorem ancestorLoop_true_resolved (tgt : Nat) (ps : List Dotted) (st st' : State W)
    (h : ancestorLoop U tgt ps st = (true, st')) (htgt : tgt < st.nss.length) (hne : ∀ p ∈ ps, p ≠ [])
    (hinv : inv st.w) (hk : NsKnown known st.w st.nss) :
    ∀ p ∈ ps, symbolNeedsImport U st'.w st'.nss p = false := by
  induction ps generalizing st with
  | nil => simp
  | cons p ps ih =>
    have hne' : ∀ q ∈ ps, q ≠ [] := fun q hq => hne q (List.mem_cons_of_mem _ hq)
    have hreach : ∀ s : State W, Reach U (fun _ _ _ _ => True) s (ancestorLoop U tgt ps s).2 :=
      fun s => reach_ancestorLoop U (fun _ _ _ _ => True) tgt ps s (fun _ _ _ _ _ => trivial)
    rw [ancestorLoop_cons] at h
    split at h
    · rename_i hs
      intro q hq
      rcases List.mem_cons.1 hq with rfl | hq
      · have := (Reach.resolved_stable hS (hreach st) q).2.2 hinv hk hs
        rw [h] at this; exact this
      · exact ih st h htgt hne' hinv hk q hq
    · split at h
      · simp at h
      · split at h
        · simp at h
        · split at h
          · simp at h
          · rename_i hr
            have hr' : (tryImport U ⟨p, p⟩ tgt true (st.withW (U.exists_ st.w p).2)).1 = true := by simpa using hr
            have hinv1 : inv (st.withW (U.exists_ st.w p).2).w := hS.inv_step hinv (Or.inr ⟨p, rfl⟩)
            have hk1 : NsKnown known (st.withW (U.exists_ st.w p).2).w (st.withW (U.exists_ st.w p).2).nss :=
              nsKnown_step hS hinv (Or.inr ⟨p, rfl⟩) hk
            have hrs := Reach.resolved_stable hS (Reach.tryImp (U := U) (P := fun _ _ _ _ => True) ⟨p, p⟩ tgt true
                (.refl (st.withW (U.exists_ st.w p).2)) trivial) p
            have hinv2 := hrs.1 hinv1
            have hk2 := hrs.2.1 hinv1 hk1
            obtain ⟨v, hex, hl, hw, _, _⟩ := tryImport_true U ⟨p, p⟩ tgt true (st.withW (U.exists_ st.w p).2) _
              (Prod.ext hr' rfl) htgt
            have hlen := tryImport_length U ⟨p, p⟩ tgt true (st.withW (U.exists_ st.w p).2)
            simp only [State.withW_nss] at hlen
            have hpne := hne p List.mem_cons_self
            -- `import p` made `p` reachable from the object it bound
            have hres : symbolNeedsImport U ((tryImport U ⟨p, p⟩ tgt true (st.withW (U.exists_ st.w p).2)).2.withAtt p true).w
                ((tryImport U ⟨p, p⟩ tgt true (st.withW (U.exists_ st.w p).2)).2.withAtt p true).nss p = false := by
              have hw' := hS.plain_sound hinv1 hpne hex
              simp only [State.withAtt_w, State.withAtt_nss, hw]
              cases p with
              | nil => exact absurd rfl hpne
              | cons hd tl =>
                exact sni_false_of_binding (by rw [hlen]; exact htgt) (by rw [name0_plain] at hl; exact hl) hw'
            intro q hq
            rcases List.mem_cons.1 hq with rfl | hq
            · have := (Reach.resolved_stable hS (hreach _) q).2.2 (by simpa using hinv2) (by simpa using hk2) hres
              rw [h] at this; exact this
            · exact ih _ h (by simp [hlen]; exact htgt) hne' (by simpa using hinv2) (by simpa using hk2) q hq

theorem autoImportSymbol_true_resolved (db : DB) (hdb : DbKeyed db) (hshape : DbShape db) (viaStr : Bool) (d : Dotted)
    (st st' : State W) (hnss : st.nss ≠ []) (hd : d ≠ []) (hinv : inv st.w) (hk : NsKnown known st.w st.nss)
    (h : autoImportSymbol U db viaStr d st = (.ok true, st')) :
    symbolNeedsImport U st'.w st'.nss d = false := by
  have htgt : st.nss.length - 1 < st.nss.length := by
    have : 0 < st.nss.length := List.length_pos_iff.2 hnss
    omega
  have hloop : ∀ s : State W, s.nss.length = st.nss.length → inv s.w → NsKnown known s.w s.nss →
      (Outcome.ok (ancestorLoop U (st.nss.length - 1) (prefixes d) s).1,
        (ancestorLoop U (st.nss.length - 1) (prefixes d) s).2) = (Outcome.ok true, st') →
      symbolNeedsImport U st'.w st'.nss d = false := by
    intro s hlen hinvs hks hl
    have h1 := congrArg Prod.fst hl
    have h2 := congrArg Prod.snd hl
    simp at h1 h2
    exact ancestorLoop_true_resolved hS _ _ s st' (Prod.ext h1 h2) (by rw [hlen]; exact htgt)
      (fun p hp => prefixes_ne_nil hp) hinvs hks d (self_mem_prefixes hd)
  rw [autoImportSymbol_eq] at h
  split at h
  · rename_i hs
    have : st' = st := by simpa using (congrArg Prod.snd h).symm
    subst this
    exact hs
  · split at h
    · simp at h
    · split at h
      · exact hloop st rfl hinv hk h
      · simp at h
      · rename_i imp hkn
        obtain ⟨key, hkp, hlk⟩ := getKnownImport_some hkn
        have hias : imp.importAs = key := hdb key [imp] hlk imp (by simp)
        split at h
        · exact hloop st rfl hinv hk h
        · split at h
          · simp at h
          · rename_i hr
            have hr' : (tryImport U imp (st.nss.length - 1) false st).1 = true := by simpa using hr
            obtain ⟨v, hex, hl, hw, _, _⟩ := tryImport_true U imp _ false st _ (Prod.ext hr' rfl) htgt
            have hlen := tryImport_length U imp (st.nss.length - 1) false st
            have hrs := Reach.resolved_stable hS (Reach.tryImp (U := U) (P := fun _ _ _ _ => True) imp
                (st.nss.length - 1) false (.refl st) trivial) d
            have hinv2 := hrs.1 hinv
            have hk2 := hrs.2.1 hinv hk
            split at h
            · rename_i hcond
              have : st' = _ := (congrArg Prod.snd h).symm
              subst this
              simp only [State.withAtt_w, State.withAtt_nss, hw]
              by_cases hplain : imp.importAs = imp.fullname
              · -- `import d` itself (direct call with a `str`)
                rcases hcond with hc | hc
                · have hid : imp.importAs = d := by
                    have : imp.importAs == d := by
                      cases viaStr <;> simp at hc ⊢; exact hc
                    simpa using this
                  have himp : imp = ⟨d, d⟩ := by
                    cases imp; simp at hid hplain ⊢; exact ⟨hplain ▸ hid, hid⟩
                  subst himp
                  have hw' := hS.plain_sound hinv hd hex
                  cases d with
                  | nil => exact absurd rfl hd
                  | cons hdn tl =>
                    exact sni_false_of_binding (by rw [hlen]; exact htgt) (by rw [name0_plain] at hl; exact hl) hw'
                · exact absurd hplain hc
              · -- an alias / from-import: it binds the single name that is the head of `d`
                obtain ⟨n, hn⟩ := hshape key [imp] hlk imp (by simp) hplain
                have hop := hS.alias_opaque hinv hplain hex
                rw [hn] at hop
                have hkey : key = [n] := by rw [← hias, hn]
                have hdh : d.head? = some n := by rw [← prefixes_head hkp, hkey]; rfl
                cases d with
                | nil => exact absurd rfl hd
                | cons hdn tl =>
                  simp at hdh; subst hdh
                  have hl' : (getNs (tryImport U imp (st.nss.length - 1) false st).2.nss (st.nss.length - 1)).lookup hdn = some v := by
                    rw [name0, hn] at hl; exact hl
                  refine sni_false_of_binding (by rw [hlen]; exact htgt) hl' ?_
                  cases tl with
                  | nil => simp [walk]
                  | cons x xs => simp [walk, hop]
            · exact hloop _ (by simp [hlen]) (by simpa using hinv2) (by simpa using hk2) h
      · simp at h

/-- **C07_success_resolves.**  In a universe satisfying `Sound`, if `auto_import` reports success
    then `symbol_needs_import` is False, in the final namespaces and world, for EVERY missing
    name — later imports of the same call never un-resolve an earlier one. -/
theorem C07_success_resolves (db : DB) (hdb : DbKeyed db) (hshape : DbShape db) (missing : List Dotted)
    (st st' : State W) (hnss : st.nss ≠ []) (hne : ∀ d ∈ missing, d ≠ []) (hinv : inv st.w)
    (hk : NsKnown known st.w st.nss)
    (h : autoImport U db (some missing) st = (.ok true, st')) :
    ∀ d ∈ missing, symbolNeedsImport U st'.w st'.nss d = false := by
  intro d hd
  obtain ⟨pre, post, rfl⟩ := List.append_of_mem hd
  obtain ⟨_, hall⟩ := foldSyms_true U db _ true st st' h
  obtain ⟨s, s1, hs, hstep, hrest, hlen⟩ := hall pre d post rfl
  have hsn : s.nss ≠ [] := by
    intro he; rw [he] at hlen; simp at hlen
    exact hnss (List.eq_nil_of_length_eq_zero hlen.symm)
  have hrs0 := Reach.resolved_stable hS (reach_foldSyms U db pre true st) d
  have hinvs : inv s.w := by rw [← hs]; exact hrs0.1 hinv
  have hks : NsKnown known s.w s.nss := by rw [← hs]; exact hrs0.2.1 hinv hk
  have hr1 := autoImportSymbol_true_resolved hS db hdb hshape false d s s1 hsn (hne d hd) hinvs hks hstep
  have hrs1 := Reach.resolved_stable hS (reach_autoImportSymbol U db false d s) d
  rw [hstep] at hrs1
  have := (Reach.resolved_stable hS (reach_foldSyms U db post true s1) d).2.2 (hrs1.1 hinvs) (hrs1.2.1 hinvs hks) hr1
  rw [hrest] at this; exact this

end

/-- **C07_success_resolves for the concrete CPython-universe model** (`pyUniv`, the model the
    correspondence check validates against the real interpreter): for every universe whose modules
    have no side effects on other modules and no member named like one of their submodules, every
    well-formed world (`Inv`: in particular every world reached from the empty one by imports) and
    every namespace stack whose objects exist in that world. -/
theorem C07_success_resolves_py {spec : List ModSpec} (hs : PyW.SpecOK spec) (db : DB) (hdb : DbKeyed db)
    (hshape : DbShape db) (missing : List Dotted) (st st' : State PyW) (hnss : st.nss ≠ [])
    (hne : ∀ d ∈ missing, d ≠ []) (hinv : PyW.Inv spec st.w)
    (hk : ∀ i k v, (getNs st.nss i).lookup k = some v → v < st.w.next)
    (h : autoImport pyUniv db (some missing) st = (.ok true, st')) :
    ∀ d ∈ missing, symbolNeedsImport pyUniv st'.w st'.nss d = false :=
  C07_success_resolves (PyW.pyUniv_sound hs) db hdb hshape missing st st' hnss hne hinv hk h

/-! ### C07_provenance -/

/-- where the binding `k` added by call `c` may come from -/
def CallProvenance (U : Univ W) (db : DB) (c : Call) (r : Rec) : Prop :=
  let ofName (d : Dotted) : Prop :=
    (r.loop = false ∧ getKnownImport db d = some [r.imp]) ∨
    (r.loop = true ∧ ∃ p ∈ prefixes d, r.imp = ⟨p, p⟩ ∧ ∃ w, (U.exists_ w p).1 = true)
  match c with
  | .code (some ds) => ∃ d ∈ ds, ofName d
  | .code none => False
  | .symbol d => ofName d
  | .tryImp imp _ => r.imp = imp
  | .newCell => False

/-- **C07_provenance.**  Every binding a history adds was yielded by an executed import statement
    that is, for some missing name `d` of some call, either THE unique database entry of the deepest
    prefix of `d` known to the database (`getKnownImport db d = some [imp]`), or `import p` for a
    prefix `p` of `d` (a module path spelled in the code) for which `exists` answered True. -/
theorem C07_provenance (U : Univ W) (db : DB) (cs : List Call) (st : State W)
    (i : Nat) (k : Name) (v : Obj)
    (hafter : (getNs (run U db cs st).2.nss i).lookup k = some v)
    (hbefore : (getNs st.nss i).lookup k = none) :
    ∃ r ∈ C06.newLog U db cs st, r.tgt = i ∧ name0 r.imp = k ∧ r.res = some v ∧
      ∃ c ∈ cs, CallProvenance U db c r := by
  obtain ⟨new, hn, h⟩ := C06.newLog_spec U db cs st
  rw [hn]
  obtain ⟨r, hr, htgt, hname, hres, _, _⟩ := h.origin i k v hafter hbefore
  obtain ⟨s, ⟨c, hc, hca⟩, _, _, _⟩ := h.allowed r hr
  refine ⟨r, hr, htgt, hname, hres, c, hc, ?_⟩
  cases c with
  | code m =>
    cases m with
    | none => exact hca.elim
    | some ds =>
      obtain ⟨d, hd, _, _, hch⟩ := hca
      exact ⟨d, hd, hch⟩
  | symbol d => exact hca.2.2
  | tryImp imp ns => exact hca.1
  | newCell => exact hca.elim

/-! ### C07_ambiguous -/

/-- **C07_ambiguous** (one name).  A name that still needs import and whose deepest known prefix has
    two or more candidate imports: `auto_import_symbol` reports failure, executes nothing, binds
    nothing — namespaces, world, log and failed set are unchanged. -/
theorem C07_ambiguous_symbol (U : Univ W) (db : DB) (viaStr : Bool) (d : Dotted) (st : State W)
    (i1 i2 : Import) (rest : List Import) (hamb : getKnownImport db d = some (i1 :: i2 :: rest))
    (hneed : symbolNeedsImport U st.w st.nss d = true) :
    (autoImportSymbol U db viaStr d st).1 = .ok false ∧
    (autoImportSymbol U db viaStr d st).2.nss = st.nss ∧
    (autoImportSymbol U db viaStr d st).2.log = st.log ∧
    (autoImportSymbol U db viaStr d st).2.failed = st.failed ∧
    (autoImportSymbol U db viaStr d st).2.w = st.w := by
  rw [autoImportSymbol_eq]
  simp only [hneed, Bool.true_eq_false, if_false]
  split
  · exact ⟨rfl, rfl, rfl, rfl, rfl⟩
  · simp only [hamb]
    refine ⟨?_, ?_, ?_, ?_, ?_⟩ <;> first | rfl | trivial

/-- **C07_ambiguous.**  `auto_import` never reports success when, at its turn, a missing name still
    needs import and has two or more candidates. -/
theorem C07_ambiguous (U : Univ W) (db : DB) (pre post : List Dotted) (d : Dotted) (st st' : State W)
    (i1 i2 : Import) (rest : List Import) (hamb : getKnownImport db d = some (i1 :: i2 :: rest))
    (hneed : symbolNeedsImport U (foldSyms U db pre true st).2.w (foldSyms U db pre true st).2.nss d = true) :
    autoImport U db (some (pre ++ d :: post)) st ≠ (.ok true, st') := by
  intro h
  obtain ⟨_, hall⟩ := foldSyms_true U db _ true st st' h
  obtain ⟨s, s1, hs, hstep, _, _⟩ := hall pre d post rfl
  subst hs
  have := (C07_ambiguous_symbol U db false d _ i1 i2 rest hamb hneed).1
  rw [hstep] at this
  simp at this

/-! ### C07_unknown -/

theorem ancestorLoop_unknown (U : Univ W) (tgt : Nat) (ps : List Dotted) (st : State W)
    (hex : ∀ p ∈ ps, ∀ w, (U.exists_ w p).1 = false)
    (hneed : ∃ p ∈ ps, symbolNeedsImport U st.w st.nss p = true) :
    (ancestorLoop U tgt ps st).1 = false ∧ (ancestorLoop U tgt ps st).2.nss = st.nss ∧
    (ancestorLoop U tgt ps st).2.log = st.log ∧ (ancestorLoop U tgt ps st).2.failed = st.failed := by
  induction ps with
  | nil => obtain ⟨p, hp, _⟩ := hneed; simp at hp
  | cons p ps ih =>
    rw [ancestorLoop_cons]
    split
    · rename_i hs
      apply ih (fun q hq => hex q (List.mem_cons_of_mem _ hq))
      obtain ⟨q, hq, hqs⟩ := hneed
      rcases List.mem_cons.1 hq with rfl | hq
      · rw [hs] at hqs; simp at hqs
      · exact ⟨q, hq, hqs⟩
    · split
      · exact ⟨rfl, rfl, rfl, rfl⟩
      · simp only [hex p List.mem_cons_self st.w, if_true]
        refine ⟨?_, ?_, ?_, ?_⟩ <;> first | rfl | trivial

/-- **C07_unknown** (one name).  A name that needs import, has no database candidate for any of
    its prefixes, and none of whose prefixes is an existing module: `auto_import_symbol` reports
    failure, executes no import and binds nothing. -/
theorem C07_unknown_symbol (U : Univ W) (db : DB) (viaStr : Bool) (d : Dotted) (st : State W) (hd : d ≠ [])
    (hnone : getKnownImport db d = none)
    (hex : ∀ p ∈ prefixes d, ∀ w, (U.exists_ w p).1 = false)
    (hneed : symbolNeedsImport U st.w st.nss d = true) :
    (autoImportSymbol U db viaStr d st).1 = .ok false ∧
    (autoImportSymbol U db viaStr d st).2.nss = st.nss ∧
    (autoImportSymbol U db viaStr d st).2.log = st.log ∧
    (autoImportSymbol U db viaStr d st).2.failed = st.failed := by
  rw [autoImportSymbol_eq]
  simp only [hneed, Bool.true_eq_false, if_false]
  split
  · exact ⟨rfl, rfl, rfl, rfl⟩
  · simp only [hnone]
    obtain ⟨h1, h2, h3, h4⟩ := ancestorLoop_unknown U (st.nss.length - 1) (prefixes d) st hex
      ⟨d, self_mem_prefixes hd, hneed⟩
    exact ⟨by rw [h1], h2, h3, h4⟩

/-- **C07_unknown.**  `auto_import` never reports success when, at its turn, a missing name still
    needs import, has no candidate and no existing module. -/
theorem C07_unknown (U : Univ W) (db : DB) (pre post : List Dotted) (d : Dotted) (st st' : State W) (hd : d ≠ [])
    (hnone : getKnownImport db d = none)
    (hex : ∀ p ∈ prefixes d, ∀ w, (U.exists_ w p).1 = false)
    (hneed : symbolNeedsImport U (foldSyms U db pre true st).2.w (foldSyms U db pre true st).2.nss d = true) :
    autoImport U db (some (pre ++ d :: post)) st ≠ (.ok true, st') := by
  intro h
  obtain ⟨_, hall⟩ := foldSyms_true U db _ true st st' h
  obtain ⟨s, s1, hs, hstep, _, _⟩ := hall pre d post rfl
  subst hs
  have := (C07_unknown_symbol U db false d _ hd hnone hex hneed).1
  rw [hstep] at this
  simp at this

/-! ### the shapes of the database lookup the code asserts on (D15) -/

/-- An EMPTY candidate tuple for the deepest known prefix (what `by_fullname_or_import_as` holds after
    a derived parent import was forgotten — D15) makes `auto_import_symbol` hit
    `assert len(imports) >= 1`; nothing is changed, but no result is reported. -/
theorem D15_empty_tuple_asserts (U : Univ W) (db : DB) (viaStr : Bool) (d : Dotted) (st : State W)
    (hempty : getKnownImport db d = some [])
    (hneed : symbolNeedsImport U st.w st.nss d = true) (hatt : st.attempted.lookup d = none) :
    autoImportSymbol U db viaStr d st = (.assertion, st) := by
  rw [autoImportSymbol_eq]
  simp [hneed, hatt, hempty]

end Pfb.C07

/-! ### hypotheses are satisfiable; why `alias_opaque` cannot be dropped -/

namespace Pfb.C07.Witness
open Pfb.AutoImp Pfb.C07

/-- a small universe satisfying `Sound`: every import succeeds and yields a fresh-looking object,
    nothing is registered in sys.modules -/
def toyU : Univ Unit :=
  ⟨fun _ i => (some (i.importAs.length + 10), ()), fun _ _ => (true, ()), fun _ _ => none, fun _ _ _ => none⟩

theorem toy_sound : Sound toyU (fun _ => True) (fun _ _ => True) where
  inv_step := by intros; trivial
  mods_mono := by intro _ _ _ _ _ _ h; simp [toyU] at h
  attr_mono := by intro _ _ _ _ _ _ _ h; simp [toyU] at h
  known_mono := by intros; trivial
  fresh := by intro _ _ _ _ _ _ _ h; simp [toyU] at h
  known_attr := by intros; trivial
  exec_known := by intros; trivial
  plain_sound := by
    intro _ p o _ _ _
    cases h : p.tail with
    | nil => simp [walk]
    | cons x xs => simp [walk, toyU]
  alias_opaque := by intro _ _ _ _ _ _; simp [toyU]

/-- `C07_success_resolves` applied to a non-trivial input: two missing dotted names, a database with
    an alias entry, an initially empty namespace -/
example :
    let db : DB := [([['n', 'p']], [⟨[['n', 'u', 'm']], [['n', 'p']]⟩])]
    let missing : List Dotted := [[['n', 'p'], ['a']], [['o', 's'], ['p']]]
    let st : State Unit := ⟨[[]], [], [], (), []⟩
    (autoImport toyU db (some missing) st).1 = .ok true ∧
    ∀ d ∈ missing, symbolNeedsImport toyU (autoImport toyU db (some missing) st).2.w
      (autoImport toyU db (some missing) st).2.nss d = false := by
  intro db missing st
  have h1 : (autoImport toyU db (some missing) st).1 = .ok true := by decide
  refine ⟨h1, ?_⟩
  have hdb : DbKeyed db := by
    intro k imps hl imp hi
    by_cases hk : k = [['n', 'p']]
    · subst hk; simp [db, List.lookup_cons] at hl; subst hl; simp at hi; subst hi; rfl
    · have : ([['n', 'p']] == k) = false := by simpa using fun h => hk h.symm
      simp [db, List.lookup_cons, this] at hl
      have : (k == [['n', 'p']]) = false := by simpa using hk
      simp [this] at hl
  have hshape : DbShape db := by
    intro k imps hl imp hi _
    by_cases hk : k = [['n', 'p']]
    · subst hk; simp [db, List.lookup_cons] at hl; subst hl; simp at hi; subst hi; exact ⟨_, rfl⟩
    · have : (k == [['n', 'p']]) = false := by simpa using hk
      simp [db, List.lookup_cons, this] at hl
  exact C07_success_resolves toy_sound db hdb hshape missing st _ (by simp [st]) (by simp [missing])
    trivial (fun _ _ _ _ => trivial) (Prod.ext h1 rfl)

/-- `C07_success_resolves_py` applied to the universe / state of the D14 witness: package `xml`
    loaded and bound in the outer namespace, `xml.dom.minidom.p` missing -/
example : symbolNeedsImport pyUniv C06.Witness.st1.w C06.Witness.st1.nss
    [C06.Witness.xml, C06.Witness.dom, C06.Witness.minidom, ['p']] = false := by
  have hs : PyW.SpecOK C06.Witness.spec := by
    constructor
    · intro s hs
      simp only [C06.Witness.spec, List.mem_cons, List.not_mem_nil, or_false] at hs
      rcases hs with rfl | rfl | rfl <;> rfl
    · intro s hs m hm s' hs'
      simp only [C06.Witness.spec, List.mem_cons, List.not_mem_nil, or_false] at hs hs'
      rcases hs with rfl | rfl | rfl <;> simp at hm
      subst hm
      rcases hs' with rfl | rfl | rfl <;> decide
  have hinv : PyW.Inv C06.Witness.spec C06.Witness.st0.w :=
    (PyW.importChain_good hs _ [C06.Witness.xml] (PyW.inv_empty _)).1.inv'
  refine C07_success_resolves_py hs [] (fun _ _ h => by simp at h) (fun _ _ h => by simp at h)
    [[C06.Witness.xml, C06.Witness.dom, C06.Witness.minidom, ['p']]] C06.Witness.st0 C06.Witness.st1
    (by decide) (by decide) hinv ?_ (Prod.ext C06.Witness.D14_witness.1 rfl) _ (by simp)
  intro i k v hl
  have h2 : C06.Witness.st0.w.next = 3 ∨ 1 < C06.Witness.st0.w.next := Or.inr (by decide)
  have hv : v = 1 := by
    match i with
    | 0 =>
      simp only [C06.Witness.st0, getNs, List.getD_cons_zero, List.lookup_cons] at hl
      split at hl
      · simpa using hl.symm
      · simp at hl
    | 1 => simp [C06.Witness.st0, getNs] at hl
    | (n + 2) => simp [C06.Witness.st0, getNs] at hl
  subst hv
  rcases h2 with h | h <;> omega

def vqa : Name := ['v', 'q', 'a']
def vqb : Name := ['v', 'q', 'b']

/-- module `vqb`; module `vqa` whose body does `vqb = sys.modules.get('vqb')` -/
def spec : List ModSpec := [⟨[vqb], false, .no, [], []⟩, ⟨[vqa], false, .no, [], [.alias vqb [vqb]]⟩]
def w0 : PyW := (PyW.importChain (PyW.empty spec) [vqb]).2
/-- `by_fullname_or_import_as` of `ImportDB("from vqa import vqb")` -/
def db : DB := [([vqb], [⟨[vqa, vqb], [vqb]⟩]), ([vqa], [⟨[vqa], [vqa]⟩])]
def st0 : State PyW := { nss := [[]], failed := [], attempted := [], w := w0, log := [] }
def name : Dotted := [vqb, ['n'], ['x']]

/-- `auto_import("vqb.n.x", [{}], db)`: the unique entry for `vqb` is a from-import that happens to
    yield the module registered as `vqb`; the call reports success, `vqb` is bound (no NameError),
    but `symbol_needs_import("vqb.n.x")` is still True — `alias_opaque` is a real hypothesis of
    `C07_success_resolves`, not of `C07_success_heads_bound`.
    (Real-world shape: `from os import sys` in the database and code reading `sys.nosuch.x`.) -/
theorem alias_registry_witness :
    (autoImport pyUniv db (some [name]) st0).1 = .ok true ∧
    (getNs (autoImport pyUniv db (some [name]) st0).2.nss 0).lookup vqb = some 1 ∧
    pyUniv.modOf (autoImport pyUniv db (some [name]) st0).2.w [vqb] = some 1 ∧
    symbolNeedsImport pyUniv (autoImport pyUniv db (some [name]) st0).2.w
      (autoImport pyUniv db (some [name]) st0).2.nss name = true := by decide

end Pfb.C07.Witness
