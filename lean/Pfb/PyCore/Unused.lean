/-
  Pfb.PyCore.Unused — model of `_MissingImportFinder` in *unused-import* mode
  (`scan_for_import_issues(block, find_unused_imports=True, parse_docstrings=False)`): `_UseChecker`s, the "used"
  marking done by `symbol_needs_import`, `_visit_Store` reporting an overwritten unused import, scope exit,
  `_deferred_load_checks` / `_deferred_use_marks`, `_scan_unused_imports`.

  The visit order is the same `compile` as in `Pfb.PyCore.Analyze`; only the state and `step` differ.  In this mode the
  caller's namespace is a fresh empty dict, so the only values in scopes are `None` (`Val.none`) and `_UseChecker`s
  (`Val.obj k` = the k-th checker created); no value is a `sys.modules` entry, hence `symbol_needs_import` returns
  at the first bound prefix it finds (innermost scope first, longest prefix first) after marking it used.
-/
import Pfb.PyCore.Analyze
namespace Pfb.PyCore

structure Checker where
  /-- `_UseChecker.name`: the name the import binds (`asname or name`) -/
  bind : Str
  /-- `_UseChecker.lineno` -/
  line : Nat
  /-- position of the alias in its import statement (identity of the import together with `line`) -/
  idx : Nat
  used : Bool := false
  deriving DecidableEq, Repr, Inhabited

structure UState where
  heap : Heap
  stack : StackRef
  saved : List StackRef := []
  inFunc : Bool := false
  savedFunc : List Bool := []
  inClass : Nat := 0
  line : Nat := 0
  checkers : List Checker := []
  /-- checker ids appended to `unused_imports`, in order -/
  unused : List Nat := []
  /-- `_deferred_load_checks`: (fullname, scope ids) -/
  deferred : List (Str × List Nat) := []
  /-- `_deferred_use_marks` -/
  useMarks : List (Str × List Nat) := []
  /-- does `_visit_Load_defered_global` add bound names of `__all__` to `_deferred_use_marks` (`Fixes.allUseMark`) -/
  allMark : Bool := false
  /-- `_conditional_depth` -/
  cond : Nat := 0
  /-- the bindings that preceded the enclosing `except … as n` handlers, innermost first -/
  savedVals : List (Option Val) := []
  /-- `_deferred_names` (heads of the names read in function bodies seen so far), and whether the tree has them (`Fixes.deferredNames`) -/
  deferredNames : List Str := []
  dnOn : Bool := false
  deriving Repr

/-- first bound prefix within one namespace, longest first -/
def findInScope (sc : Scope) : List (List Str) → Option Val
  | [] => none
  | p :: ps => match sc.get (joinDots p) with
    | some v => some v
    | none => findInScope sc ps

/-- first binding of a prefix of `parts`, innermost namespace first -/
def findBinding (heap : Heap) (parts : List Str) : List Nat → Option Val
  | [] => none
  | i :: is => match findInScope (heap.get i) (prefixesRev parts) with
    | some v => some v
    | none => findBinding heap parts is

def markUsed (cs : List Checker) (k : Nat) : List Checker := cs.modify k (fun c => { c with used := true })

def UState.mark (st : UState) (v : Val) : UState :=
  match v with
  | .obj k => { st with checkers := markUsed st.checkers k }
  | .none => st

/-- `symbol_needs_import(fullname, scopestack)` in this mode: (needs import, state with the found checker marked) -/
def sniU (st : UState) (ids : List Nat) (fullname : Str) : Bool × UState :=
  match findBinding st.heap (splitDots fullname) (normIds ids).reverse with
  | some v => (false, st.mark v)
  | none => (true, st)

def isUnusedAt (st : UState) (key : Str) (v : Val) : Option Nat :=
  match v with
  | .obj k => match st.checkers[k]? with
    | some c => if !c.used && c.bind = key then some k else none
    | none => none
  | .none => none

/-- `_visit_Store`, first part: the proper prefixes of a dotted key are looked up (and thereby marked used) -/
def lookupAncestors (st : UState) (key : Str) : UState :=
  ((prefixes (splitDots key)).dropLast).foldl (fun st p => (sniU st st.stack.ids (joinDots p)).2) st

/-- `_visit_Store`, second part: an unused checker stored under its own name is about to be overwritten -/
def reportOld (st : UState) (key : Str) : UState :=
  match (st.heap.get st.stack.top).get key with
  | some old =>
    match isUnusedAt st key old with
    | some k =>
      if st.cond = 0 ∧ ¬ (st.dnOn = true ∧ (splitDots key).headD [] ∈ st.deferredNames) then { st with unused := st.unused ++ [k] }
      else st
    | none => st
  | none => st

/-- `_visit_Store(fullname, value)` -/
def storeU (st : UState) (key : Str) (v : Val) : UState :=
  let st := reportOld (lookupAncestors st key) key
  { st with heap := st.heap.update st.stack.top (·.set key v) }

def cloneTopU (st : UState) : UState × List Nat :=
  let newId := st.heap.length
  ({ st with heap := st.heap ++ [st.heap.get st.stack.top] }, normIds (st.stack.ids.dropLast ++ [newId]))

/-- one `_visit_Load_defered` -/
def deferCore (st : UState) (name : Str) : UState :=
  let r := sniU st st.stack.ids name
  let c := cloneTopU r.2
  if r.1 then { c.1 with deferred := c.1.deferred ++ [(name, c.2)] }
  else { c.1 with useMarks := c.1.useMarks ++ [(name, c.2)] }

/-- one `_visit_Load_defered`: the head of the name joins `_deferred_names`, then the lookup, the clone and the entry -/
def deferU (st : UState) (name : Str) : UState :=
  deferCore { st with deferredNames := (splitDots name).headD [] :: st.deferredNames } name

/-- scope exit: unused checkers of the popped scope that are stored under their own name -/
def collectUnused (st : UState) (items : List (Str × Val)) : UState :=
  items.foldl (fun st kv => match isUnusedAt st kv.1 kv.2 with
    | some k => { st with unused := st.unused ++ [k] }
    | none => st) st

def stepU (st : UState) : Op → UState
  | .setLine n => { st with line := n }
  | .load name =>
    if st.inFunc then deferU (deferU st name) name
    else (sniU st st.stack.ids name).2
  | .store name => storeU st name .none
  | .importAlias keys bind idx plain =>
    if plain then keys.foldl (fun st k => storeU st k .none) st
    else
      let k := st.checkers.length
      let st := { st with checkers := st.checkers ++ [{ bind := bind, line := st.line, idx := idx }] }
      let st := keys.foldl (fun st key => storeU st key (.obj k)) st
      { st with checkers := st.checkers.modify k (fun c => { c with used := false }) }
  | .pushScope includeClass newClass unhide =>
    let newId := st.heap.length
    let ns := st.stack.withNewScope st.heap includeClass unhide newId
    { st with heap := st.heap ++ [{ isClass := newClass }], saved := st.stack :: st.saved, stack := ns }
  | .popScope =>
    let st := collectUnused st (st.heap.get st.stack.top).items
    match st.saved with
    | [] => st
    | s :: r => { st with stack := s, saved := r }
  | .upScope => { st with saved := st.stack :: st.saved, stack := st.stack.up }
  | .downScope =>
    match st.saved with
    | [] => st
    | s :: r => { st with stack := s, saved := r }
  | .enterFunc => { st with savedFunc := st.inFunc :: st.savedFunc, inFunc := true }
  | .exitFunc =>
    match st.savedFunc with
    | [] => st
    | b :: r => { st with inFunc := b, savedFunc := r }
  | .classDelayed name modOnly =>
    if st.inClass = 0 ∧ (modOnly = true → st.inFunc = false) ∧ st.stack.sharedDelayed then { st with heap := st.heap.update delayedId (·.set name .none) } else st
  | .incClass => { st with inClass := st.inClass + 1 }
  | .decClass => { st with inClass := st.inClass - 1 }
  | .removeMissing _ _ => st
  | .dunderClass =>
    if st.inClass ≠ 0 then { st with heap := st.heap.update st.stack.top (·.set "__class__".toList .none) } else st
  | .storeIfNotInClass name => if st.inClass = 0 then storeU st name .none else st
  | .allNames names =>
    if st.inFunc then st
    else names.foldl (fun st n =>
      let r := sniU st st.stack.ids n
      if r.1 then { r.2 with deferred := r.2.deferred ++ [(n, r.2.stack.ids)] }
      else if r.2.allMark then { r.2 with useMarks := r.2.useMarks ++ [(n, r.2.stack.ids)] } else r.2) st
  | .delName name deep =>
    let i := st.stack.top
    if ((st.heap.get i).get name).isSome then
      { st with heap := st.heap.update i (fun sc => if deep then (sc.del name).delBelow name else sc.del name) }
    else st
  | .condEnter => { st with cond := st.cond + 1 }
  | .condExit => { st with cond := st.cond - 1 }
  | .saveHas name => { st with savedVals := (st.heap.get st.stack.top).get name :: st.savedVals }
  | .restoreHas name =>
    match st.savedVals with
    | [] => st
    | some v :: r => { st with savedVals := r, heap := st.heap.update st.stack.top (·.set name v) }
    | none :: r => { st with savedVals := r }

def runOpsU (st : UState) (ops : List Op) : UState := ops.foldl stepU st

/-- `_finish_deferred_load_checks`: both lists only mark -/
def finishU (st : UState) : UState :=
  let st := st.deferred.foldl (fun st d => (sniU st d.2 d.1).2) st
  let st := st.useMarks.foldl (fun st d => (sniU st d.2 d.1).2) st
  { st with deferred := [], useMarks := [] }

/-- `_scan_unused_imports` (before the final sort) -/
def scanUnusedU (st : UState) : UState := collectUnused st (st.heap.get st.stack.top).items

/-- `scan_for_import_issues`: builtins, `_builtins2`, `_class_delayed`, the fresh `{}` namespace, the private top scope -/
def initU (builtins : Scope) (allMark : Bool) (dnOn : Bool := false) : UState :=
  let heap : Heap := [builtins, { items := [("__file__".toList, .none)] }, ({} : Scope), ({} : Scope), ({} : Scope)]
  { heap := heap, stack := { ids := normIds [3, 4] }, allMark := allMark, dnOn := dnOn }

def analyzeU (fx : Fixes) (builtins : Scope) (prog : List Stmt) : UState :=
  scanUnusedU (finishU (runOpsU (initU builtins fx.allUseMark fx.deferredNames) (cStmts fx 0 prog)))

/-- the unused imports as (line of the import statement, index of the alias in it), in report order -/
def findUnused (fx : Fixes) (builtins : Scope) (prog : List Stmt) : List (Nat × Nat) :=
  let st := analyzeU fx builtins prog
  st.unused.filterMap (fun k => (st.checkers[k]?).map (fun c => (c.line, c.idx)))

end Pfb.PyCore
