/-
  Pfb.PyCore.Unused — model of `_MissingImportFinder` in *unused-import* mode
  (`scan_for_import_issues(block, find_unused_imports=True, parse_docstrings=False)`): `_UseChecker`s, the "used"
  marking done by `symbol_needs_import`, `_visit_Store` reporting an overwritten unused import, scope exit,
  `_deferred_load_checks` / `_deferred_use_marks`, `_scan_unused_imports`.

  The visit order is the same `compile` as in `Pfb.PyCore.Analyze`; only the state and `step` differ.  In this mode the
  caller's namespace is a fresh empty dict, so the only values in scopes are `None` (`Val.none`) and `_UseChecker`s
  (`Val.obj k` = the k-th checker created); no value is a `sys.modules` entry, hence `symbol_needs_import` returns
  at the first bound prefix it finds (innermost scope first, longest prefix first) after marking it used.
-/
import Pfb.PyCore.Analyze
namespace Pfb.PyCore

structure Checker where
  /-- `_UseChecker.name`: the name the import binds (`asname or name`); meaningless for an anonymous carrier -/
  bind : Str
  /-- `_UseChecker.lineno` -/
  line : Nat
  /-- position of the alias in its import statement (identity of the import together with `line`) -/
  idx : Nat
  used : Bool := false
  /-- `_UseChecker.shadowed`: older unused checkers of the same name that this binding may or may not have replaced -/
  shadowed : List Nat := []
  /-- `_UseChecker(None, None, lineno)`: the carrier stored when a non-import value conditionally replaces unused imports -/
  anon : Bool := false
  deriving DecidableEq, Repr, Inhabited

structure UState where
  heap : Heap
  stack : StackRef
  saved : List StackRef := []
  inFunc : Bool := false
  savedFunc : List Bool := []
  inClass : Nat := 0
  line : Nat := 0
  checkers : List Checker := []
  /-- checker ids appended to `unused_imports`, in order -/
  unused : List Nat := []
  /-- `_deferred_load_checks`: (fullname, scope ids) -/
  deferred : List (Str × List Nat) := []
  /-- `_deferred_use_marks` -/
  useMarks : List (Str × List Nat) := []
  /-- does `_visit_Load_defered_global` add bound names of `__all__` to `_deferred_use_marks` (`Fixes.allUseMark`) -/
  allMark : Bool := false
  /-- `_conditional_depth` -/
  cond : Nat := 0
  /-- `_deferred_names` (heads of the names read in function bodies seen so far), and whether the tree has them (`Fixes.deferredNames`) -/
  deferredNames : List Str := []
  dnOn : Bool := false
  deriving Repr

/-- first bound prefix within one namespace, longest first -/
def findInScope (sc : Scope) : List (List Str) → Option Val
  | [] => none
  | p :: ps => match sc.get (joinDots p) with
    | some v => some v
    | none => findInScope sc ps

/-- first binding of a prefix of `parts`, innermost namespace first -/
def findBinding (heap : Heap) (parts : List Str) : List Nat → Option Val
  | [] => none
  | i :: is => match findInScope (heap.get i) (prefixesRev parts) with
    | some v => some v
    | none => findBinding heap parts is

/-- `checker.used = True` through the property setter: the checker and, recursively, everything it shadows -/
def markRec : Nat → List Checker → Nat → List Checker
  | 0, cs, _ => cs
  | f + 1, cs, k =>
    match cs[k]? with
    | none => cs
    | some c => c.shadowed.foldl (fun cs j => markRec f cs j) (cs.modify k (fun c => { c with used := true }))

def markUsed (cs : List Checker) (k : Nat) : List Checker := markRec (cs.length + 1) cs k

def UState.mark (st : UState) (v : Val) : UState :=
  match v with
  | .obj k => { st with checkers := markUsed st.checkers k }
  | .none => st

/-- `symbol_needs_import(fullname, scopestack)` in this mode: (needs import, state with the found checker marked) -/
def sniU (st : UState) (ids : List Nat) (fullname : Str) : Bool × UState :=
  match findBinding st.heap (splitDots fullname) (normIds ids).reverse with
  | some v => (false, st.mark v)
  | none => (true, st)

/-- `checker.name == key` (never true for an anonymous carrier) -/
def nameIs (c : Checker) (key : Str) : Bool := !c.anon && decide (c.bind = key)

/-- `_UseChecker.unused_shadowed()` -/
def unusedShadowed (cs : List Checker) (k : Nat) : List Nat :=
  match cs[k]? with
  | some c => c.shadowed.filter (fun j => match cs[j]? with | some d => !d.used | none => false)
  | none => []

/-- the `pending` list of `_visit_Store`: what the value about to be overwritten still owes -/
def pendingOf (cs : List Checker) (key : Str) (old : Option Val) : List Nat :=
  match old with
  | some (.obj k) =>
    match cs[k]? with
    | some c => unusedShadowed cs k ++ (if !c.used && nameIs c key then [k] else [])
    | none => []
  | _ => []

/-- `_visit_Store`, first part: the proper prefixes of a dotted key are looked up (and thereby marked used) -/
def lookupAncestors (st : UState) (key : Str) : UState :=
  ((prefixes (splitDots key)).dropLast).foldl (fun st p => (sniU st st.stack.ids (joinDots p)).2) st

/-- is the store conditional in the sense of `_visit_Store` -/
def shadowing (st : UState) (key : Str) : Bool :=
  decide (st.cond ≠ 0) || (st.dnOn && decide ((splitDots key).headD [] ∈ st.deferredNames))

def writeTop (st : UState) (key : Str) (v : Val) : UState :=
  { st with heap := st.heap.update st.stack.top (·.set key v) }

/-- `_visit_Store(fullname, value)` -/
def storeU (st : UState) (key : Str) (v : Val) : UState :=
  let st := lookupAncestors st key
  let pending := pendingOf st.checkers key ((st.heap.get st.stack.top).get key)
  if shadowing st key then
    if pending.isEmpty then writeTop st key v
    else
      match v with
      | .obj kv =>
        writeTop { st with checkers := st.checkers.modify kv (fun c => { c with shadowed := pending ++ c.shadowed }) } key v
      | .none =>
        writeTop { st with checkers := st.checkers ++ [{ bind := [], line := st.line, idx := 0, anon := true, shadowed := pending }] }
          key (.obj st.checkers.length)
  else writeTop { st with unused := st.unused ++ pending } key v

def cloneTopU (st : UState) : UState × List Nat :=
  let newId := st.heap.length
  ({ st with heap := st.heap ++ [st.heap.get st.stack.top] }, normIds (st.stack.ids.dropLast ++ [newId]))

/-- one `_visit_Load_defered` -/
def deferCore (st : UState) (name : Str) : UState :=
  let r := sniU st st.stack.ids name
  let c := cloneTopU r.2
  if r.1 then { c.1 with deferred := c.1.deferred ++ [(name, c.2)] }
  else { c.1 with useMarks := c.1.useMarks ++ [(name, c.2)] }

/-- one `_visit_Load_defered`: the head of the name joins `_deferred_names`, then the lookup, the clone and the entry -/
def deferU (st : UState) (name : Str) : UState :=
  deferCore { st with deferredNames := (splitDots name).headD [] :: st.deferredNames } name

/-- scope exit (`_NewScopeCtx`): for the entries stored under their own name, the shadowed checkers nobody read, then the
    checker itself if unused; anonymous carriers are skipped altogether -/
def collectUnused (st : UState) (items : List (Str × Val)) : UState :=
  items.foldl (fun st kv =>
    match kv.2 with
    | .obj k =>
      match st.checkers[k]? with
      | some c =>
        if nameIs c kv.1 then
          let st := { st with unused := st.unused ++ unusedShadowed st.checkers k }
          if !c.used then { st with unused := st.unused ++ [k] } else st
        else st
      | none => st
    | .none => st) st

/-- `_scan_unused_imports` over the top scope (before the final sort): like scope exit, and the shadowed checkers of
    anonymous carriers are reported too -/
def scanItems (st : UState) (items : List (Str × Val)) : UState :=
  items.foldl (fun st kv =>
    match kv.2 with
    | .obj k =>
      match st.checkers[k]? with
      | some c =>
        let st := if nameIs c kv.1 || c.anon then { st with unused := st.unused ++ unusedShadowed st.checkers k } else st
        if c.used || c.anon then st
        else if nameIs c kv.1 then { st with unused := st.unused ++ [k] } else st
      | none => st
    | .none => st) st

/-- the end of `_visit_StoreImport`: `value.used = False`, and the same for everything in `value.shadowed` -/
def resetUsed (cs : List Checker) (k : Nat) : List Checker :=
  let cs := cs.modify k (fun c => { c with used := false })
  match cs[k]? with
  | some c => c.shadowed.foldl (fun cs j => cs.modify j (fun d => { d with used := false })) cs
  | none => cs

def stepU (st : UState) : Op → UState
  | .setLine n => { st with line := n }
  | .load name =>
    if st.inFunc then deferU (deferU st name) name
    else (sniU st st.stack.ids name).2
  | .store name => storeU st name .none
  | .importAlias keys bind idx plain =>
    if plain then keys.foldl (fun st k => storeU st k .none) st
    else
      let k := st.checkers.length
      let st := { st with checkers := st.checkers ++ [{ bind := bind, line := st.line, idx := idx }] }
      let st := keys.foldl (fun st key => storeU st key (.obj k)) st
      { st with checkers := resetUsed st.checkers k }
  | .pushScope includeClass newClass unhide =>
    let newId := st.heap.length
    let ns := st.stack.withNewScope st.heap includeClass unhide newId
    { st with heap := st.heap ++ [{ isClass := newClass }], saved := st.stack :: st.saved, stack := ns }
  | .popScope =>
    let st := collectUnused st (st.heap.get st.stack.top).items
    match st.saved with
    | [] => st
    | s :: r => { st with stack := s, saved := r }
  | .upScope => { st with saved := st.stack :: st.saved, stack := st.stack.up }
  | .downScope =>
    match st.saved with
    | [] => st
    | s :: r => { st with stack := s, saved := r }
  | .enterFunc => { st with savedFunc := st.inFunc :: st.savedFunc, inFunc := true }
  | .exitFunc =>
    match st.savedFunc with
    | [] => st
    | b :: r => { st with inFunc := b, savedFunc := r }
  | .classDelayed name modOnly =>
    if st.inClass = 0 ∧ (modOnly = true → st.inFunc = false) ∧ st.stack.sharedDelayed then { st with heap := st.heap.update delayedId (·.set name .none) } else st
  | .incClass => { st with inClass := st.inClass + 1 }
  | .decClass => { st with inClass := st.inClass - 1 }
  | .removeMissing _ _ => st
  | .dunderClass =>
    if st.inClass ≠ 0 then { st with heap := st.heap.update st.stack.top (·.set "__class__".toList .none) } else st
  | .storeIfNotInClass name => if st.inClass = 0 then storeU st name .none else st
  | .allNames names =>
    if st.inFunc then st
    else names.foldl (fun st n =>
      let r := sniU st st.stack.ids n
      if r.1 then { r.2 with deferred := r.2.deferred ++ [(n, r.2.stack.ids)] }
      else if r.2.allMark then { r.2 with useMarks := r.2.useMarks ++ [(n, r.2.stack.ids)] } else r.2) st
  | .delName name deep =>
    let i := st.stack.top
    if ((st.heap.get i).get name).isSome then
      { st with heap := st.heap.update i (fun sc => if deep then (sc.del name).delBelow name else sc.del name) }
    else st
  | .condEnter => { st with cond := st.cond + 1 }
  | .condExit => { st with cond := st.cond - 1 }
  | .handlerEnd name =>
    let i := st.stack.top
    let value := (st.heap.get i).get name
    let st := { st with heap := st.heap.update i (fun sc => (sc.del name).delBelow name) }
    match value with
    | some (.obj k) =>
      match st.checkers[k]? with
      | some c => { st with checkers := c.shadowed.foldl markUsed st.checkers }
      | none => st
    | _ => st

def runOpsU (st : UState) (ops : List Op) : UState := ops.foldl stepU st

/-- `_finish_deferred_load_checks`: both lists only mark -/
def finishU (st : UState) : UState :=
  let st := st.deferred.foldl (fun st d => (sniU st d.2 d.1).2) st
  let st := st.useMarks.foldl (fun st d => (sniU st d.2 d.1).2) st
  { st with deferred := [], useMarks := [] }

/-- `_scan_unused_imports` (before the final sort) -/
def scanUnusedU (st : UState) : UState := scanItems st (st.heap.get st.stack.top).items

/-- `scan_for_import_issues`: builtins, `_builtins2`, `_class_delayed`, the fresh `{}` namespace, the private top scope -/
def initU (builtins : Scope) (allMark : Bool) (dnOn : Bool := false) : UState :=
  let heap : Heap := [builtins, { items := [("__file__".toList, .none)] }, ({} : Scope), ({} : Scope), ({} : Scope)]
  { heap := heap, stack := { ids := normIds [3, 4] }, allMark := allMark, dnOn := dnOn }

def analyzeU (fx : Fixes) (builtins : Scope) (prog : List Stmt) : UState :=
  scanUnusedU (finishU (runOpsU (initU builtins fx.allUseMark fx.deferredNames) (cStmts fx 0 prog)))

/-- the unused imports as (line of the import statement, index of the alias in it), in report order -/
def findUnused (fx : Fixes) (builtins : Scope) (prog : List Stmt) : List (Nat × Nat) :=
  let st := analyzeU fx builtins prog
  st.unused.filterMap (fun k => (st.checkers[k]?).map (fun c => (c.line, c.idx)))

end Pfb.PyCore
