/-
  Pfb.PyCore.Syntax — mini-Python AST shared by C05 / C20 (and later C02, C04, C06, C07).

  Exactly the shape produced by `harness/gen_c05.py` (the harness owns the generator and the renderer
  to Python source; Lean receives the AST as JSON, see `Pfb.PyCore.Json`).
  No Mathlib.  Text is `Pfb.Str = List Char`.
-/
import Pfb.Basic
namespace Pfb.PyCore

inductive CompKind | list | set | gen | dict
  deriving DecidableEq, Repr, Inhabited

mutual
  inductive Expr
    | name (n : Str)
    | attr (e : Expr) (a : Str)
    | call (f : Expr) (args : List Expr)
    | const                                   -- rendered `_K`, a builtin universal dummy
    | bool (b : Bool)
    | str (s : Str)                           -- string literal (only meaningful in `__all__ = [...]`)
    | binop (l r : Expr)
    | lambda (a : Args) (body : Expr)
    | comp (k : CompKind) (elts : List Expr) (gens : List Gen)   -- list/set/generator: one elt; dict: key, value
    | ifExp (t a b : Expr)
    | tuple (es : List Expr)
    | list (es : List Expr)
    | subscript (v i : Expr)
  inductive Gen
    | mk (target : Expr) (iter : Expr) (ifs : List Expr)
  inductive Param
    | mk (name : Str) (ann : Option Expr)
  inductive Args
    | mk (args : List Param) (defaults : List Expr) (vararg : Option Str)
         (kwonly : List Param) (kwdefaults : List (Option Expr)) (kwarg : Option Str)
end

instance : Inhabited Expr := ⟨.const⟩

structure WithItem where
  ctx : Expr
  target : Option Expr

structure Alias where
  name : Str
  asname : Option Str
  deriving DecidableEq, Repr

mutual
  inductive Stmt
    | expr (e : Expr)
    | assign (targets : List Expr) (v : Expr)
    | augAssign (t : Expr) (v : Expr)
    | annAssign (t : Expr) (ann : Expr) (v : Option Expr)
    | import_ (names : List Alias)
    | importFrom (module : Str) (names : List Alias)
    | funcDef (name : Str) (a : Args) (body : List Stmt) (decos : List Expr) (returns : Option Expr)
    | classDef (name : Str) (bases : List Expr) (body : List Stmt) (decos : List Expr)
    | for_ (target iter : Expr) (body orelse : List Stmt)
    | while_ (test : Expr) (body orelse : List Stmt)       -- rendered with a trailing `break`: at most one iteration
    | if_ (test : Expr) (body orelse : List Stmt)
    | with_ (items : List WithItem) (body : List Stmt)
    | try_ (body : List Stmt) (handlers : List Handler) (orelse final : List Stmt)
    | return_ (e : Option Expr)
    | pass
    | raise_ (e : Expr)
    | delete (targets : List Expr)          -- unclaimed extension
    | global_ (names : List Str)            -- unclaimed extension
    | nonlocal_ (names : List Str)          -- unclaimed extension
    | located (line : Nat) (s : Stmt)       -- `s` starts on source line `line` (ast `lineno`)
  inductive Handler
    | mk (line : Nat) (type : Option Expr) (name : Option Str) (body : List Stmt)   -- `line`: the `except` line
end

instance : Inhabited Stmt := ⟨.pass⟩

/-- `'.'.join(parts)` -/
def joinDots : List Str → Str
  | [] => []
  | [p] => p
  | p :: q :: ps => p ++ '.' :: joinDots (q :: ps)

/-- `s.split('.')` -/
def splitDots : Str → List Str
  | [] => [[]]
  | c :: cs =>
    if c = '.' then [] :: splitDots cs
    else match splitDots cs with
      | [] => [[c]]
      | l :: ls => (c :: l) :: ls

/-- `name.attr1.attr2…` as the list `[name, attr1, attr2, …]` when the chain bottoms out in a Name
    (what `visit_Attribute` collects), else `none`. -/
def Expr.dotted : Expr → Option (List Str)
  | .name n => some [n]
  | .attr e a => match e.dotted with
    | some ps => some (ps ++ [a])
    | none => none
  | _ => none

end Pfb.PyCore
