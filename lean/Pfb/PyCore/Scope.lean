/-
  Pfb.PyCore.Scope — model of `ScopeStack`, `_ClassScope` and `symbol_needs_import`
  (lib/python/pyflyby/_autoimp.py:50-348), with an explicit *effect log* for C20.

  * A namespace (`dict`) is a heap cell `Scope` (insertion-ordered association list, tagged when it is a
    `_ClassScope`).  A `ScopeStack` is a list of heap ids, most-global first; dicts are shared between stacks
    exactly as in the code (deferred load checks alias all scopes but the cloned top one).
  * Values found in namespaces are `Val.none` (Python `None`: what the analysis stores for every local binding) or
    `Val.obj id` (an object with identity `id` from a caller-supplied namespace).
  * `Registry` abstracts `sys.modules` (dotted name ↦ value) and the outcome of `getattr(value, part)`.
  * Every `getattr`, truth test, `==`, `hash`, import attempt and dict write the modelled code paths can perform
    on/with namespace values is a constructor of `Effect`.
-/
import Pfb.PyCore.Syntax
namespace Pfb.PyCore

inductive Val
  | none
  | obj (id : Nat)
  deriving DecidableEq, Repr, Inhabited

structure Scope where
  isClass : Bool := false
  items : List (Str × Val) := []
  deriving DecidableEq, Repr, Inhabited

def assocGet {β} (k : Str) : List (Str × β) → Option β
  | [] => none
  | (k', v) :: r => if k' = k then some v else assocGet k r

/-- `d[k] = v` on an insertion-ordered dict -/
def assocSet {β} (k : Str) (v : β) : List (Str × β) → List (Str × β)
  | [] => [(k, v)]
  | (k', v') :: r => if k' = k then (k, v) :: r else (k', v') :: assocSet k v r

def assocDel {β} (k : Str) : List (Str × β) → List (Str × β)
  | [] => []
  | (k', v') :: r => if k' = k then r else (k', v') :: assocDel k r

/-- `del d[k]` on a dict (keys are unique in a real dict: every entry with the key goes) -/
def assocDelAll {β} (k : Str) (l : List (Str × β)) : List (Str × β) := l.filter (fun kv => kv.1 ≠ k)

def Scope.get (s : Scope) (k : Str) : Option Val := assocGet k s.items
def Scope.set (s : Scope) (k : Str) (v : Val) : Scope := { s with items := assocSet k v s.items }
def Scope.del (s : Scope) (k : Str) : Scope := { s with items := assocDelAll k s.items }
/-- the keys `k.…` (dotted names below `k`, as stored by `import k.a.b`), in dict order -/
def Scope.dottedBelow (s : Scope) (k : Str) : List Str := (s.items.map (·.1)).filter (fun key => (k ++ ['.']).isPrefixOf key)
/-- `for name in [key for key in scope if key.startswith(k + ".")]: del scope[name]` -/
def Scope.delBelow (s : Scope) (k : Str) : Scope := { s with items := s.items.filter (fun kv => !((k ++ ['.']).isPrefixOf kv.1)) }

abbrev Heap := List Scope

def Heap.get (h : Heap) (i : Nat) : Scope := h.getD i {}
def Heap.update (h : Heap) (i : Nat) (f : Scope → Scope) : Heap := h.modify i f

structure Registry where
  /-- `sys.modules` -/
  mods : List (Str × Val) := []
  /-- `getattr(v, part)`: present = the value returned, absent = `AttributeError` -/
  attrs : List (Val × Str × Val) := []
  deriving Repr, Inhabited

def Registry.get (r : Registry) (pname : Str) : Option Val := assocGet pname r.mods

def Registry.getattr (r : Registry) (v : Val) (part : Str) : Option Val :=
  match r.attrs.find? (fun e => e.1 = v ∧ e.2.1 = part) with
  | some e => some e.2.2
  | none => none

inductive Effect
  | getattr (v : Val) (pname part : Str)   -- `getattr(v, part)`, `v` having been reached under the dotted name `pname`
  | truth (v : Val)                          -- `bool(v)` / `if v`
  | eq (v : Val)                             -- `v == …`     (no modelled code path produces it)
  | hash (v : Val)                           -- `hash(v)`    (no modelled code path produces it)
  | importMod (name : Str)                   -- an import    (no modelled code path produces it)
  | nsWrite (heapId : Nat) (key : Str)       -- `scope[key] = …`
  | nsDel (heapId : Nat) (key : Str)         -- `del scope[key]`
  deriving DecidableEq, Repr

/-- non-empty prefixes, shortest first: `DottedIdentifier.prefixes` as part lists -/
def prefixes : List Str → List (List Str)
  | [] => []
  | p :: ps => [p] :: (prefixes ps).map (p :: ·)

/-- `fullname.prefixes[::-1]`: longest first. -/
def prefixesRev (parts : List Str) : List (List Str) := (prefixes parts).reverse

/-- The `for part in suffix_parts` loop (lines 296-340).  `some false`: "return False" (no import needed: either the
    whole chain exists or a non-registry value was reached); `none`: `AttributeError` on a registry module → `break`. -/
def walkAttrs (reg : Registry) : Val → Str → List Str → Option Bool × List Effect
  | _, _, [] => (some false, [])
  | var, pname, part :: rest =>
    if reg.get pname ≠ some var then (some false, [])
    else match reg.getattr var part with
      | none => (none, [.getattr var pname part])
      | some v =>
        let r := walkAttrs reg v (pname ++ '.' :: part) rest
        (r.1, .getattr var pname part :: r.2)

/-- The `for partial_name in partial_names` loop within one namespace. -/
def scanPartials (reg : Registry) (sc : Scope) (parts : List Str) : List (List Str) → Option Bool × List Effect
  | [] => (none, [])
  | p :: ps =>
    match sc.get (joinDots p) with
    | none => scanPartials reg sc parts ps
    | some var =>
      let r := walkAttrs reg var (joinDots p) (parts.drop p.length)
      match r.1 with
      | some b => (some b, r.2)
      | none =>
        let r2 := scanPartials reg sc parts ps
        (r2.1, r.2 ++ r2.2)

/-- The loop over namespaces, innermost first. -/
def scanScopes (reg : Registry) (heap : Heap) (parts : List Str) : List Nat → Bool × List Effect
  | [] => (true, [])
  | i :: is =>
    let r := scanPartials reg (heap.get i) parts (prefixesRev parts)
    match r.1 with
    | some b => (b, r.2)
    | none =>
      let r2 := scanScopes reg heap parts is
      (r2.1, r.2 ++ r2.2)

/-- keep the first occurrence of every id (`seen`: ids already emitted) -/
def dedupAux (seen : List Nat) : List Nat → List Nat
  | [] => []
  | a :: l => if a ∈ seen then dedupAux seen l else a :: dedupAux (a :: seen) l

/-- `ScopeStack.__init__`: builtins (heap id 0) and `_builtins2` (id 1) first, duplicates (by identity) removed. -/
def normIds (ids : List Nat) : List Nat := dedupAux [] (0 :: 1 :: ids)

/-- `symbol_needs_import(fullname, namespaces)` → (decision, effects in execution order). -/
def symbolNeedsImport (reg : Registry) (heap : Heap) (ids : List Nat) (fullname : Str) : Bool × List Effect :=
  scanScopes reg heap (splitDots fullname) (normIds ids).reverse

/-! ### ScopeStack objects -/

/-- heap id of the `_class_delayed` dict shared by the initial stack and everything derived from it by
    `_with_new_scope` -/
def delayedId : Nat := 2

structure StackRef where
  ids : List Nat
  /-- `false` after slicing / `clone_top` / re-wrapping: those get a fresh, empty `_class_delayed` -/
  sharedDelayed : Bool := true
  deriving DecidableEq, Repr, Inhabited

def StackRef.top (s : StackRef) : Nat := s.ids.getLastD 0

/-- `_with_new_scope`; `newId` is the heap id of the new empty dict. -/
def StackRef.withNewScope (s : StackRef) (heap : Heap) (includeClass unhide : Bool) (newId : Nat) : StackRef :=
  let scopes := if includeClass then s.ids else s.ids.filter (fun i => !(heap.get i).isClass)
  let scopes := if unhide ∧ s.sharedDelayed ∧ (heap.get delayedId).items ≠ [] then delayedId :: scopes else scopes
  { ids := normIds (scopes ++ [newId]), sharedDelayed := s.sharedDelayed }

/-- `stack[:-1]` -/
def StackRef.up (s : StackRef) : StackRef := { ids := normIds s.ids.dropLast, sharedDelayed := false }

def hasStar (heap : Heap) (ids : List Nat) : Bool := ids.any fun i => ((heap.get i).get ['*']).isSome

end Pfb.PyCore
