/-
  Pfb.PyCore.Json — JSON → mini-AST / namespaces / registry decoding shared by Driver/C05.lean and Driver/C20.lean.
  Part of the trusted glue (like Pfb.DriverUtil), not of the model; imported by drivers only.
-/
import Pfb.DriverUtil
import Pfb.PyCore.Analyze
namespace Pfb.PyCore.J
open Lean Pfb Pfb.Drv Pfb.PyCore

def arr (j : Json) : Except String (Array Json) := j.getArr?
def sstr (j : Json) : Except String Str := do pure (toStr (← j.getStr?))
def optStr (j : Json) : Except String (Option Str) :=
  match j with
  | .null => pure none
  | _ => do pure (some (← sstr j))

mutual
  partial def expr (j : Json) : Except String Expr := do
    let a ← arr j
    let k ← a[0]!.getStr?
    match k with
    | "name" => pure (.name (← sstr a[1]!))
    | "attr" => pure (.attr (← expr a[1]!) (← sstr a[2]!))
    | "call" => pure (.call (← expr a[1]!) (← exprs a[2]!))
    | "const" => pure .const
    | "bool" => pure (.bool (← a[1]!.getBool?))
    | "str" => pure (.str (← sstr a[1]!))
    | "binop" => pure (.binop (← expr a[1]!) (← expr a[2]!))
    | "lambda" => pure (.lambda (← args a[1]!) (← expr a[2]!))
    | "listComp" => pure (.comp .list [← expr a[1]!] (← gens a[2]!))
    | "setComp" => pure (.comp .set [← expr a[1]!] (← gens a[2]!))
    | "genExp" => pure (.comp .gen [← expr a[1]!] (← gens a[2]!))
    | "dictComp" => pure (.comp .dict [← expr a[1]!, ← expr a[2]!] (← gens a[3]!))
    | "ifExp" => pure (.ifExp (← expr a[1]!) (← expr a[2]!) (← expr a[3]!))
    | "tuple" => pure (.tuple (← exprs a[1]!))
    | "list" => pure (.list (← exprs a[1]!))
    | "subscript" => pure (.subscript (← expr a[1]!) (← expr a[2]!))
    | _ => throw s!"expr kind {k}"
  partial def exprs (j : Json) : Except String (List Expr) := do
    (← arr j).toList.mapM expr
  partial def optExpr (j : Json) : Except String (Option Expr) :=
    match j with
    | .null => pure none
    | _ => do pure (some (← expr j))
  partial def gens (j : Json) : Except String (List Gen) := do
    (← arr j).toList.mapM fun g => do
      let a ← arr g
      pure (Gen.mk (← expr a[0]!) (← expr a[1]!) (← exprs a[2]!))
  partial def params (j : Json) : Except String (List Param) := do
    (← arr j).toList.mapM fun p => do
      let a ← arr p
      pure (Param.mk (← sstr a[0]!) (← optExpr a[1]!))
  partial def args (j : Json) : Except String Args := do
    let get (k : String) : Json := (j.getObjVal? k).toOption.getD Json.null
    let ps ← match get "args" with | .null => pure [] | v => params v
    let ds ← match get "defaults" with | .null => pure [] | v => exprs v
    let ko ← match get "kwonly" with | .null => pure [] | v => params v
    let kd ← match get "kwdefaults" with | .null => pure [] | v => (do (← arr v).toList.mapM optExpr)
    pure (Args.mk ps ds (← optStr (get "vararg")) ko kd (← optStr (get "kwarg")))
end

def aliases (j : Json) : Except String (List Alias) := do
  (← arr j).toList.mapM fun p => do
    let a ← arr p
    pure ⟨← sstr a[0]!, ← optStr a[1]!⟩

def strs (j : Json) : Except String (List Str) := do (← arr j).toList.mapM sstr

mutual
  partial def stmt (j : Json) : Except String Stmt := do
    let a ← arr j
    let k ← a[0]!.getStr?
    match k with
    | "at" => pure (.located (← a[1]!.getNat?) (← stmt a[2]!))
    | "expr" => pure (.expr (← expr a[1]!))
    | "assign" => pure (.assign (← exprs a[1]!) (← expr a[2]!))
    | "augAssign" => pure (.augAssign (← expr a[1]!) (← expr a[2]!))
    | "annAssign" => pure (.annAssign (← expr a[1]!) (← expr a[2]!) (← optExpr a[3]!))
    | "import" => pure (.import_ (← aliases a[1]!))
    | "importFrom" => pure (.importFrom (← sstr a[1]!) (← aliases a[2]!))
    | "funcDef" => pure (.funcDef (← sstr a[1]!) (← args a[2]!) (← stmts a[3]!) (← exprs a[4]!) (← optExpr a[5]!))
    | "classDef" => pure (.classDef (← sstr a[1]!) (← exprs a[2]!) (← stmts a[3]!) (← exprs a[4]!))
    | "for" => pure (.for_ (← expr a[1]!) (← expr a[2]!) (← stmts a[3]!) (← stmts a[4]!))
    | "while" => pure (.while_ (← expr a[1]!) (← stmts a[2]!) (← stmts a[3]!))
    | "if" => pure (.if_ (← expr a[1]!) (← stmts a[2]!) (← stmts a[3]!))
    | "with" =>
      let items ← (← arr a[1]!).toList.mapM fun it => do
        let b ← arr it
        pure (WithItem.mk (← expr b[0]!) (← optExpr b[1]!))
      pure (.with_ items (← stmts a[2]!))
    | "try" =>
      let hs ← (← arr a[2]!).toList.mapM fun h => do
        let b ← arr h
        pure (Handler.mk (← b[0]!.getNat?) (← optExpr b[1]!) (← optStr b[2]!) (← stmts b[3]!))
      pure (.try_ (← stmts a[1]!) hs (← stmts a[3]!) (← stmts a[4]!))
    | "return" => pure (.return_ (← optExpr a[1]!))
    | "pass" => pure .pass
    | "raise" => pure (.raise_ (← expr a[1]!))
    | "delete" => pure (.delete (← exprs a[1]!))
    | "global" => pure (.global_ (← strs a[1]!))
    | "nonlocal" => pure (.nonlocal_ (← strs a[1]!))
    | _ => throw s!"stmt kind {k}"
  partial def stmts (j : Json) : Except String (List Stmt) := do
    (← arr j).toList.mapM stmt
end

/-- value: null → None, n → object with identity n -/
def val (j : Json) : Except String Val :=
  match j with
  | .null => pure .none
  | _ => do pure (.obj (← j.getNat?))

/-- namespace: [[key, value] ..] -/
def scope (j : Json) : Except String Scope := do
  let items ← (← arr j).toList.mapM fun kv => do
    let a ← arr kv
    pure (← sstr a[0]!, ← val a[1]!)
  pure { items := items }

/-- registry: {"mods": [[dotted, value]..], "attrs": [[value, attr, value]..]} -/
def registry (j : Json) : Except String Registry := do
  let mods ← (← jarr j "mods").toList.mapM fun kv => do
    let a ← arr kv
    pure (← sstr a[0]!, ← val a[1]!)
  let attrs ← (← jarr j "attrs").toList.mapM fun t => do
    let a ← arr t
    pure (← val a[0]!, ← sstr a[1]!, ← val a[2]!)
  pure { mods := mods, attrs := attrs }

/-- {"exceptUnbind": b, "augLoad": b, "forIterFirst": b, "annValueFirst": b, "compScope": b, "paramAnnOuter": b}; absent = false -/
def fixes (j : Json) : Fixes :=
  let g (k : String) : Bool := match j.getObjValAs? Bool k with | .ok b => b | .error _ => false
  { exceptUnbind := g "exceptUnbind", augLoad := g "augLoad", forIterFirst := g "forIterFirst",
    annValueFirst := g "annValueFirst", compScope := g "compScope", paramAnnOuter := g "paramAnnOuter",
    allUseMark := g "allUseMark", delDotted := g "delDotted",
    condStore := g "condStore", deferredNames := g "deferredNames", classModuleOnly := g "classModuleOnly",
    returnsOuter := g "returnsOuter" }

def valJ : Val → Json
  | .none => Json.null
  | .obj n => natJ n

def effectJ : Effect → Json
  | .getattr v p a => Json.arr #["getattr", valJ v, strJ p, strJ a]
  | .truth v => Json.arr #["truth", valJ v]
  | .eq v => Json.arr #["eq", valJ v]
  | .hash v => Json.arr #["hash", valJ v]
  | .importMod n => Json.arr #["import", strJ n]
  | .nsWrite i k => Json.arr #["write", natJ i, strJ k]
  | .nsDel i k => Json.arr #["del", natJ i, strJ k]

end Pfb.PyCore.J
