/-
  Pfb.PyCore.Lemmas — facts about `symbol_needs_import` (Scope.lean): what it decides and which effects it has.
-/
import Pfb.PyCore.Scope
namespace Pfb.PyCore

/-! ### dotted names -/

theorem joinDots_snoc (l : List Str) (a : Str) (h : l ≠ []) : joinDots (l ++ [a]) = joinDots l ++ '.' :: a := by
  induction l with
  | nil => exact absurd rfl h
  | cons x xs ih =>
    cases xs with
    | nil => simp [joinDots]
    | cons y ys =>
      have := ih (by simp)
      simp only [List.cons_append, joinDots] at this ⊢
      simp [this]

theorem prefixes_mem {parts p : List Str} (h : p ∈ prefixes parts) :
    ∃ k, 0 < k ∧ k ≤ parts.length ∧ p = parts.take k := by
  induction parts generalizing p with
  | nil => simp [prefixes] at h
  | cons a as ih =>
    simp only [prefixes, List.mem_cons, List.mem_map] at h
    rcases h with rfl | ⟨q, hq, rfl⟩
    · exact ⟨1, by simp, by simp, by simp⟩
    · obtain ⟨k, hk0, hk, rfl⟩ := ih hq
      exact ⟨k + 1, by omega, by simp; omega, by simp⟩

theorem prefixesRev_mem {parts p : List Str} (h : p ∈ prefixesRev parts) :
    ∃ k, 0 < k ∧ k ≤ parts.length ∧ p = parts.take k := by
  unfold prefixesRev at h
  exact prefixes_mem (List.mem_reverse.mp h)

/-! ### effects of `symbol_needs_import` -/

/-- The only effect: `getattr(v, part)` where `v` **is** the registry entry (`sys.modules[pname]`) of the dotted
    prefix `pname = parts[:k]` of the name being resolved and `part = parts[k]`. -/
def RegistryGetattr (reg : Registry) (parts : List Str) (e : Effect) : Prop :=
  ∃ v k a, e = .getattr v (joinDots (parts.take k)) a ∧ 0 < k ∧ parts[k]? = some a ∧
    reg.get (joinDots (parts.take k)) = some v

theorem walkAttrs_effects (reg : Registry) (parts : List Str) :
    ∀ (k : Nat) (var : Val), 0 < k →
      ∀ e ∈ (walkAttrs reg var (joinDots (parts.take k)) (parts.drop k)).2, RegistryGetattr reg parts e := by
  intro k
  -- induction on the remaining suffix length
  generalize hn : parts.length - k = n
  induction n generalizing k with
  | zero =>
    intro var hk e he
    have : parts.drop k = [] := by
      apply List.drop_eq_nil_of_le; omega
    rw [this] at he
    simp [walkAttrs] at he
  | succ n ih =>
    intro var hk e he
    have hlt : k < parts.length := by omega
    have hdrop : parts.drop k = parts[k] :: parts.drop (k + 1) := by
      exact List.drop_eq_getElem_cons hlt
    rw [hdrop] at he
    unfold walkAttrs at he
    split at he
    · simp at he
    · rename_i hreg
      have hreg' : reg.get (joinDots (parts.take k)) = some var := by
        simpa using hreg
      have hget : parts[k]? = some parts[k] := by simp [hlt]
      split at he
      · simp only [List.mem_singleton] at he
        exact ⟨var, k, parts[k], he, hk, hget, hreg'⟩
      · rename_i v hv
        simp only [List.mem_cons] at he
        rcases he with he | he
        · exact ⟨var, k, parts[k], he, hk, hget, hreg'⟩
        · have hj : joinDots (parts.take k) ++ '.' :: parts[k] = joinDots (parts.take (k + 1)) := by
            rw [List.take_add_one, ← joinDots_snoc]
            · simp [hlt]
            · intro h0
              have : (parts.take k).length = 0 := by rw [h0]; rfl
              rw [List.length_take] at this; omega
          rw [hj] at he
          exact ih (k + 1) (by omega) v (by omega) e he

theorem scanPartials_effects (reg : Registry) (sc : Scope) (parts : List Str) :
    ∀ ps : List (List Str), (∀ p ∈ ps, ∃ k, 0 < k ∧ k ≤ parts.length ∧ p = parts.take k) →
      ∀ e ∈ (scanPartials reg sc parts ps).2, RegistryGetattr reg parts e := by
  intro ps
  induction ps with
  | nil => intro _ e he; simp [scanPartials] at he
  | cons p ps ih =>
    intro hps e he
    have ih' := ih (fun q hq => hps q (List.mem_cons_of_mem _ hq))
    obtain ⟨k, hk0, hk, rfl⟩ := hps p (List.mem_cons_self ..)
    unfold scanPartials at he
    split at he
    · exact ih' e he
    · rename_i var _
      have hlen : (parts.take k).length = k := by simp; omega
      rw [hlen] at he
      have hw := walkAttrs_effects reg parts k var hk0
      dsimp only at he
      cases hr : (walkAttrs reg var (joinDots (parts.take k)) (parts.drop k)).1 with
      | some b => simp only [hr] at he; exact hw e he
      | none =>
        simp only [hr, List.mem_append] at he
        rcases he with he | he
        · exact hw e he
        · exact ih' e he

theorem scanScopes_effects (reg : Registry) (heap : Heap) (parts : List Str) (ids : List Nat) :
    ∀ e ∈ (scanScopes reg heap parts ids).2, RegistryGetattr reg parts e := by
  induction ids with
  | nil => intro e he; simp [scanScopes] at he
  | cons i is ih =>
    intro e he
    have hp := scanPartials_effects reg (heap.get i) parts (prefixesRev parts) (fun p hp => prefixesRev_mem hp)
    unfold scanScopes at he
    dsimp only at he
    cases hr : (scanPartials reg (heap.get i) parts (prefixesRev parts)).1 with
    | some b => simp only [hr] at he; exact hp e he
    | none =>
      simp only [hr, List.mem_append] at he
      rcases he with he | he
      · exact hp e he
      · exact ih e he

/-- **Effects of `symbol_needs_import`.**  Every effect it can have on a value found in a namespace is a
    `getattr(m, part)` where `m` is identical to `sys.modules[prefix]` for a dotted prefix of the name asked about
    and `part` is the next component of that name.  No `==`, `hash`, `bool`, import or write. -/
theorem symbolNeedsImport_effects (reg : Registry) (heap : Heap) (ids : List Nat) (fullname : Str) :
    ∀ e ∈ (symbolNeedsImport reg heap ids fullname).2, RegistryGetattr reg (splitDots fullname) e :=
  scanScopes_effects reg heap _ _

/-! ### what `symbol_needs_import` decides -/

/-- `Follows reg v p pre v' p'`: starting from value `v` reached under dotted name `p`, each component of `pre`
    is an existing attribute of a value that is the registry entry of the name reached so far. -/
inductive Follows (reg : Registry) : Val → Str → List Str → Val → Str → Prop
  | nil (v p) : Follows reg v p [] v p
  | cons {v p a w rest v' p'} : reg.get p = some v → reg.getattr v a = some w →
      Follows reg w (p ++ '.' :: a) rest v' p' → Follows reg v p (a :: rest) v' p'

/-- The attribute walk dead-ends (`AttributeError`, "may need import") exactly when it reaches, through registry
    modules only, a registry module that lacks the next component. -/
theorem walkAttrs_none_iff (reg : Registry) (parts : List Str) (var : Val) (pname : Str) :
    (walkAttrs reg var pname parts).1 = none ↔
      ∃ pre part post var' pname', parts = pre ++ part :: post ∧ Follows reg var pname pre var' pname' ∧
        reg.get pname' = some var' ∧ reg.getattr var' part = none := by
  induction parts generalizing var pname with
  | nil =>
    simp [walkAttrs]
  | cons a rest ih =>
    unfold walkAttrs
    split
    · rename_i hne
      simp only [reduceCtorEq, false_iff, not_exists, not_and]
      intro pre part post var' pname' hparts hf hreg _
      cases hf with
      | nil => exact hne hreg
      | cons h1 _ _ => exact hne h1
    · rename_i heq
      have heq' : reg.get pname = some var := by simpa using heq
      split
      · rename_i hnone
        simp only [true_iff]
        exact ⟨[], a, rest, var, pname, rfl, .nil _ _, heq', hnone⟩
      · rename_i w hw
        simp only
        rw [ih]
        constructor
        · rintro ⟨pre, part, post, var', pname', hparts, hf, hreg, hnone⟩
          exact ⟨a :: pre, part, post, var', pname', by simp [hparts], .cons heq' hw hf, hreg, hnone⟩
        · rintro ⟨pre, part, post, var', pname', hparts, hf, hreg, hnone⟩
          cases hf with
          | nil =>
            simp only [List.nil_append, List.cons.injEq] at hparts
            obtain ⟨rfl, rfl⟩ := hparts
            rw [hw] at hnone; cases hnone
          | cons h1 h2 h3 =>
            simp only [List.cons_append, List.cons.injEq] at hparts
            obtain ⟨rfl, rfl⟩ := hparts
            rw [hw] at h2; cases h2
            exact ⟨_, part, post, var', pname', rfl, h3, hreg, hnone⟩

theorem scanPartials_fst_cons (reg : Registry) (sc : Scope) (parts p : List Str) (ps : List (List Str)) :
    (scanPartials reg sc parts (p :: ps)).1 =
      match sc.get (joinDots p) with
      | none => (scanPartials reg sc parts ps).1
      | some var =>
        match (walkAttrs reg var (joinDots p) (parts.drop p.length)).1 with
        | some b => some b
        | none => (scanPartials reg sc parts ps).1 := by
  rw [scanPartials]
  cases h : sc.get (joinDots p) with
  | none => rfl
  | some var =>
    dsimp only
    cases (walkAttrs reg var (joinDots p) (parts.drop p.length)).1 <;> rfl

theorem scanScopes_fst_cons (reg : Registry) (heap : Heap) (parts : List Str) (i : Nat) (is : List Nat) :
    (scanScopes reg heap parts (i :: is)).1 =
      match (scanPartials reg (heap.get i) parts (prefixesRev parts)).1 with
      | some b => b
      | none => (scanScopes reg heap parts is).1 := by
  rw [scanScopes]
  dsimp only
  cases (scanPartials reg (heap.get i) parts (prefixesRev parts)).1 <;> rfl

theorem walkAttrs_ne_true (reg : Registry) : ∀ (l : List Str) (v : Val) (pn : Str), (walkAttrs reg v pn l).1 ≠ some true := by
  intro l
  induction l with
  | nil => intro v pn; simp [walkAttrs]
  | cons a r ihl =>
    intro v pn
    unfold walkAttrs
    split
    · simp
    · split
      · simp
      · exact ihl _ _

theorem scanPartials_ne_true (reg : Registry) (sc : Scope) (parts : List Str) :
    ∀ ps, (scanPartials reg sc parts ps).1 ≠ some true := by
  intro ps
  induction ps with
  | nil => simp [scanPartials]
  | cons p ps ih =>
    rw [scanPartials_fst_cons]
    split
    · exact ih
    · split
      · rename_i b hb
        intro hc
        cases hc
        exact walkAttrs_ne_true reg _ _ _ hb
      · exact ih

theorem scanPartials_none_iff (reg : Registry) (sc : Scope) (parts : List Str) (ps : List (List Str)) :
    (scanPartials reg sc parts ps).1 = none ↔
      ∀ p ∈ ps, ∀ var, sc.get (joinDots p) = some var →
        (walkAttrs reg var (joinDots p) (parts.drop p.length)).1 = none := by
  induction ps with
  | nil => simp [scanPartials]
  | cons p ps ih =>
    rw [scanPartials_fst_cons]
    split
    · rename_i hnone
      rw [ih]
      constructor
      · intro h q hq var hv
        rcases List.mem_cons.mp hq with rfl | hq
        · rw [hnone] at hv; cases hv
        · exact h q hq var hv
      · intro h q hq; exact h q (List.mem_cons_of_mem _ hq)
    · rename_i var hsome
      split
      · rename_i b hb
        simp only [reduceCtorEq, false_iff]
        intro h
        have := h p (List.mem_cons_self ..) var hsome
        rw [hb] at this; cases this
      · rename_i hb
        rw [ih]
        constructor
        · intro h q hq var' hv
          rcases List.mem_cons.mp hq with rfl | hq
          · rw [hsome] at hv; cases hv; exact hb
          · exact h q hq var' hv
        · intro h q hq; exact h q (List.mem_cons_of_mem _ hq)

theorem scanScopes_true_iff (reg : Registry) (heap : Heap) (parts : List Str) (ids : List Nat) :
    (scanScopes reg heap parts ids).1 = true ↔
      ∀ i ∈ ids, (scanPartials reg (heap.get i) parts (prefixesRev parts)).1 = none := by
  induction ids with
  | nil => simp [scanScopes]
  | cons i is ih =>
    rw [scanScopes_fst_cons]
    split
    · rename_i b hb
      constructor
      · intro h
        subst h
        exact absurd hb (scanPartials_ne_true reg _ _ _)
      · intro h
        have := h i (List.mem_cons_self ..)
        rw [hb] at this; cases this
    · rename_i hb
      rw [ih]
      constructor
      · intro h j hj
        rcases List.mem_cons.mp hj with rfl | hj
        · exact hb
        · exact h j hj
      · intro h j hj; exact h j (List.mem_cons_of_mem _ hj)

/-- **Specification of `symbol_needs_import`.**  `fullname` needs import iff in *every* namespace of the stack
    (builtins included), *every* bound dotted prefix of `fullname` dead-ends: following the remaining components
    through values that are the registry entries of the names reached, a registry module lacks the next component.
    In particular a bound prefix whose value is not the registry entry of its own name (a local assignment, any
    non-module object, a module bound under another name) answers "no import needed" without any `getattr`.
    The scan order (innermost namespace first, longest prefix first) only matters for the effect log. -/
theorem symbolNeedsImport_spec (reg : Registry) (heap : Heap) (ids : List Nat) (fullname : Str) :
    (symbolNeedsImport reg heap ids fullname).1 = true ↔
      ∀ i ∈ normIds ids, ∀ p ∈ prefixes (splitDots fullname), ∀ var,
        (heap.get i).get (joinDots p) = some var →
          ∃ pre part post var' pname',
            (splitDots fullname).drop p.length = pre ++ part :: post ∧
            Follows reg var (joinDots p) pre var' pname' ∧ reg.get pname' = some var' ∧
            reg.getattr var' part = none := by
  unfold symbolNeedsImport
  rw [scanScopes_true_iff]
  constructor
  · intro h i hi p hp var hv
    have h1 := h i (List.mem_reverse.mpr hi)
    rw [scanPartials_none_iff] at h1
    have := h1 p (by unfold prefixesRev; exact List.mem_reverse.mpr hp) var hv
    exact (walkAttrs_none_iff ..).mp this
  · intro h i hi
    rw [scanPartials_none_iff]
    intro p hp var hv
    apply (walkAttrs_none_iff ..).mpr
    exact h i (List.mem_reverse.mp hi) p (by unfold prefixesRev at hp; exact List.mem_reverse.mp hp) var hv

end Pfb.PyCore
