/-
  Pfb.PyCore.AnalyzeLemmas — an invariant of the `_MissingImportFinder` model that holds across every visit:
  all writes go to private scopes, private scopes only hold `None`, the caller's namespaces are untouched, and every
  logged effect is harmless.  (Used by C20; the frame part is reused by C05.)
-/
import Pfb.PyCore.Analyze
import Pfb.PyCore.Lemmas
namespace Pfb.PyCore

/-! ### lists of ids -/

theorem mem_dedupAux {s l : List Nat} {i : Nat} (h : i ∈ dedupAux s l) : i ∈ l := by
  induction l generalizing s with
  | nil => simp [dedupAux] at h
  | cons a l ih =>
    unfold dedupAux at h
    split at h
    · exact List.mem_cons_of_mem _ (ih h)
    · rcases List.mem_cons.mp h with rfl | h
      · exact List.mem_cons_self ..
      · exact List.mem_cons_of_mem _ (ih h)

theorem dedupAux_not_seen {s l : List Nat} {i : Nat} (h : i ∈ dedupAux s l) : i ∉ s := by
  induction l generalizing s with
  | nil => simp [dedupAux] at h
  | cons a l ih =>
    unfold dedupAux at h
    split at h
    · exact ih h
    · rename_i hna
      rcases List.mem_cons.mp h with rfl | h
      · exact hna
      · have := ih h
        intro hc; exact this (List.mem_cons_of_mem _ hc)

theorem dedupAux_nodup (s l : List Nat) : (dedupAux s l).Nodup := by
  induction l generalizing s with
  | nil => simp [dedupAux]
  | cons a l ih =>
    unfold dedupAux
    split
    · exact ih s
    · refine List.nodup_cons.mpr ⟨?_, ih _⟩
      intro h
      exact dedupAux_not_seen h (List.mem_cons_self ..)

theorem dedupAux_fix {s m : List Nat} (hd : ∀ a ∈ m, a ∉ s) (hn : m.Nodup) : dedupAux s m = m := by
  induction m generalizing s with
  | nil => rfl
  | cons a m ih =>
    unfold dedupAux
    rw [if_neg (hd a (List.mem_cons_self ..))]
    congr 1
    have hn' := List.nodup_cons.mp hn
    apply ih _ hn'.2
    intro b hb hc
    rcases List.mem_cons.mp hc with rfl | hc
    · exact hn'.1 hb
    · exact hd b (List.mem_cons_of_mem _ hb) hc

theorem dedupAux_snoc_fresh {s l : List Nat} {x : Nat} (hs : x ∉ s) (hl : x ∉ l) :
    dedupAux s (l ++ [x]) = dedupAux s l ++ [x] := by
  induction l generalizing s with
  | nil => simp [dedupAux, hs]
  | cons a l ih =>
    have hxa : x ≠ a := fun h => hl (h ▸ List.mem_cons_self ..)
    have hl' : x ∉ l := fun h => hl (List.mem_cons_of_mem _ h)
    simp only [List.cons_append]
    unfold dedupAux
    split
    · exact ih hs hl'
    · rw [ih (by simp [hxa, hs]) hl']; rfl

theorem normIds_eq (l : List Nat) : normIds l = 0 :: 1 :: dedupAux [1, 0] l := by
  simp [normIds, dedupAux]

theorem normIds_idem (l : List Nat) : normIds (normIds l) = normIds l := by
  rw [normIds_eq l, normIds_eq]
  simp only [dedupAux, List.mem_cons, or_true, true_or, ↓reduceIte, List.not_mem_nil, or_false]
  congr 2
  apply dedupAux_fix
  · intro a ha; exact dedupAux_not_seen ha
  · exact dedupAux_nodup _ _

theorem mem_normIds {l : List Nat} {i : Nat} (h : i ∈ normIds l) : i = 0 ∨ i = 1 ∨ i ∈ l := by
  rw [normIds_eq] at h
  simp only [List.mem_cons] at h
  rcases h with h | h | h
  · exact .inl h
  · exact .inr (.inl h)
  · exact .inr (.inr (mem_dedupAux h))

theorem normIds_snoc_fresh {l : List Nat} {x : Nat} (h0 : x ≠ 0) (h1 : x ≠ 1) (hl : x ∉ l) :
    normIds (l ++ [x]) = normIds l ++ [x] := by
  unfold normIds
  have : (0 :: 1 :: (l ++ [x])) = (0 :: 1 :: l) ++ [x] := by simp
  rw [this, dedupAux_snoc_fresh (by simp)]
  simp only [List.mem_cons]
  rintro (h | h | h)
  · exact h0 h
  · exact h1 h
  · exact hl h

theorem mem_dedupAux_of_mem {s l : List Nat} {i : Nat} (hl : i ∈ l) (hs : i ∉ s) : i ∈ dedupAux s l := by
  induction l generalizing s with
  | nil => simp at hl
  | cons a l ih =>
    unfold dedupAux
    split
    · rename_i has
      rcases List.mem_cons.mp hl with rfl | hl
      · exact absurd has hs
      · exact ih hl hs
    · rcases List.mem_cons.mp hl with rfl | hl
      · exact List.mem_cons_self ..
      · by_cases hia : i = a
        · subst hia; exact List.mem_cons_self ..
        · exact List.mem_cons_of_mem _ (ih hl (by simp [hia, hs]))

theorem mem_normIds_iff {l : List Nat} {i : Nat} : i ∈ normIds l ↔ i = 0 ∨ i = 1 ∨ i ∈ l := by
  constructor
  · exact mem_normIds
  · rw [normIds_eq]
    rintro (h | h | h)
    · subst h; simp
    · subst h; simp
    · by_cases h0 : i = 0
      · subst h0; simp
      · by_cases h1 : i = 1
        · subst h1; simp
        · exact List.mem_cons_of_mem _ (List.mem_cons_of_mem _ (mem_dedupAux_of_mem h (by simp [h0, h1])))

theorem normIds_ne_nil (l : List Nat) : normIds l ≠ [] := by rw [normIds_eq]; simp

/-! ### heaps -/

theorem Heap.get_update (h : Heap) (i j : Nat) (f : Scope → Scope) :
    (h.update i f).get j = if j = i ∧ i < h.length then f (h.get i) else h.get j := by
  unfold Heap.get Heap.update
  simp only [List.getD_eq_getElem?_getD, List.getElem?_modify]
  by_cases hji : j = i
  · subst hji
    by_cases hlt : j < h.length
    · simp [hlt]
    · simp [hlt]
  · have : ¬ i = j := fun h => hji h.symm
    simp [this, hji]

theorem Heap.length_update (h : Heap) (i : Nat) (f : Scope → Scope) : (h.update i f).length = h.length := by
  simp [Heap.update]

theorem Heap.get_append_left (h : Heap) (c : Scope) {j : Nat} (hj : j < h.length) : Heap.get (h ++ [c]) j = h.get j := by
  simp [Heap.get, List.getD_eq_getElem?_getD, List.getElem?_append_left hj]

theorem Heap.get_append_new (h : Heap) (c : Scope) : Heap.get (h ++ [c]) h.length = c := by
  simp [Heap.get, List.getD_eq_getElem?_getD]

theorem Heap.get_ge (h : Heap) {j : Nat} (hj : h.length ≤ j) : h.get j = {} := by
  simp [Heap.get, List.getD_eq_getElem?_getD, List.getElem?_eq_none hj]

theorem assocSet_values {k : Str} {l : List (Str × Val)} (h : ∀ kv ∈ l, kv.2 = Val.none) :
    ∀ kv ∈ assocSet k Val.none l, kv.2 = Val.none := by
  induction l with
  | nil => intro kv hkv; simp [assocSet] at hkv; subst hkv; rfl
  | cons a l ih =>
    intro kv hkv
    unfold assocSet at hkv
    split at hkv
    · rcases List.mem_cons.mp hkv with rfl | hkv
      · rfl
      · exact h kv (List.mem_cons_of_mem _ hkv)
    · rcases List.mem_cons.mp hkv with rfl | hkv
      · exact h _ (List.mem_cons_self ..)
      · exact ih (fun x hx => h x (List.mem_cons_of_mem _ hx)) kv hkv

theorem assocDel_values {k : Str} {l : List (Str × Val)} (h : ∀ kv ∈ l, kv.2 = Val.none) :
    ∀ kv ∈ assocDel k l, kv.2 = Val.none := by
  induction l with
  | nil => intro kv hkv; simp [assocDel] at hkv
  | cons a l ih =>
    intro kv hkv
    unfold assocDel at hkv
    split at hkv
    · exact h kv (List.mem_cons_of_mem _ hkv)
    · rcases List.mem_cons.mp hkv with rfl | hkv
      · exact h _ (List.mem_cons_self ..)
      · exact ih (fun x hx => h x (List.mem_cons_of_mem _ hx)) kv hkv

/-! ### the invariant -/

/-- Effects an analysis may have when its private scopes are the heap cells `≥ n` (and cell `delayedId`). -/
def EffectOK (reg : Registry) (n : Nat) : Effect → Prop
  | .getattr v p _ => reg.get p = some v
  | .truth v => v = .none
  | .nsWrite i _ => i = delayedId ∨ n ≤ i
  | .nsDel i _ => n ≤ i
  | .eq _ => False
  | .hash _ => False
  | .importMod _ => False

structure Inv (reg : Registry) (n : Nat) (H0 : Heap) (st : AState) : Prop where
  /-- the caller's namespaces (and builtins) are as they were -/
  user : ∀ i, i < n → i ≠ delayedId → st.heap.get i = H0.get i
  /-- private scopes hold nothing but `None` -/
  priv : ∀ i, (i = delayedId ∨ n ≤ i) → ∀ kv ∈ (st.heap.get i).items, kv.2 = Val.none
  top_ge : n ≤ st.stack.top
  ids_lt : ∀ i ∈ st.stack.ids, i < st.heap.length
  wf : normIds st.stack.ids = st.stack.ids
  log : ∀ e ∈ st.log, EffectOK reg n e
  n3 : 3 ≤ n

/-- what a complete visit leaves in place -/
structure Restores (st st' : AState) : Prop where
  stack : st'.stack = st.stack
  saved : st'.saved = st.saved
  heap : st.heap.length ≤ st'.heap.length

theorem Restores.refl (st : AState) : Restores st st := ⟨rfl, rfl, Nat.le_refl _⟩
theorem Restores.trans {a b c : AState} (h1 : Restores a b) (h2 : Restores b c) : Restores a c :=
  ⟨h2.stack.trans h1.stack, h2.saved.trans h1.saved, Nat.le_trans h1.heap h2.heap⟩

theorem StackRef.top_mem {s : StackRef} (h : s.ids ≠ []) : s.top ∈ s.ids := by
  unfold StackRef.top
  rw [List.getLastD_eq_getLast?, List.getLast?_eq_some_getLast h]
  exact List.getLast_mem h

theorem Inv.ids_ne {reg n H0 st} (h : Inv reg n H0 st) : st.stack.ids ≠ [] := by
  rw [← h.wf]; exact normIds_ne_nil _

theorem Inv.top_lt {reg n H0 st} (h : Inv reg n H0 st) : st.stack.top < st.heap.length :=
  h.ids_lt _ (StackRef.top_mem h.ids_ne)

theorem RegistryGetattr.ok {reg : Registry} {parts : List Str} {e : Effect} (n : Nat)
    (h : RegistryGetattr reg parts e) : EffectOK reg n e := by
  obtain ⟨v, k, a, rfl, _, _, hr⟩ := h
  exact hr

/-- `Inv` only depends on heap, stack and log. -/
theorem Inv.of_eq {reg n H0} {st st' : AState} (h : Inv reg n H0 st)
    (hh : st'.heap = st.heap) (hs : st'.stack = st.stack) (hl : st'.log = st.log) : Inv reg n H0 st' := by
  constructor
  · rw [hh]; exact h.user
  · rw [hh]; exact h.priv
  · rw [hs]; exact h.top_ge
  · rw [hs, hh]; exact h.ids_lt
  · rw [hs]; exact h.wf
  · rw [hl]; exact h.log
  · exact h.n3

theorem Inv.emit {reg n H0} {st : AState} (h : Inv reg n H0 st) {es : List Effect}
    (hes : ∀ e ∈ es, EffectOK reg n e) : Inv reg n H0 (st.emit es) := by
  refine { h with log := ?_ }
  intro e he
  simp only [AState.emit, List.mem_append] at he
  rcases he with he | he
  · exact h.log e he
  · exact hes e he

theorem inv_checkLoad {reg n H0} {st : AState} (h : Inv reg n H0 st) (name : Str) (ids : List Nat) (line : Nat) :
    Inv reg n H0 (checkLoad reg st name ids line) ∧ Restores st (checkLoad reg st name ids line) := by
  have h1 : Inv reg n H0 (st.emit (symbolNeedsImport reg st.heap ids name).2) :=
    h.emit (fun e he => (symbolNeedsImport_effects reg st.heap ids name e he).ok n)
  unfold checkLoad
  dsimp only
  split
  · split
    · exact ⟨h1, ⟨rfl, rfl, Nat.le_refl _⟩⟩
    · exact ⟨h1.of_eq rfl rfl rfl, ⟨rfl, rfl, Nat.le_refl _⟩⟩
  · exact ⟨h1, ⟨rfl, rfl, Nat.le_refl _⟩⟩

theorem inv_update_top {reg n H0} {st : AState} (h : Inv reg n H0 st) (i : Nat) (hi : i = delayedId ∨ n ≤ i)
    (f : Scope → Scope) (hf : ∀ sc : Scope, (∀ kv ∈ sc.items, kv.2 = Val.none) → ∀ kv ∈ (f sc).items, kv.2 = Val.none)
    (e : Effect) (he : EffectOK reg n e) :
    Inv reg n H0 { st with heap := st.heap.update i f, log := st.log ++ [e] } := by
  constructor
  · intro j hj hjd
    simp only [Heap.get_update]
    have : ¬ (j = i ∧ i < st.heap.length) := by
      rintro ⟨rfl, _⟩
      rcases hi with hi | hi
      · exact hjd hi
      · omega
    rw [if_neg this]; exact h.user j hj hjd
  · intro j hj kv hkv
    simp only [Heap.get_update] at hkv
    split at hkv
    · rename_i hc
      exact hf _ (h.priv i hi) kv hkv
    · exact h.priv j hj kv hkv
  · exact h.top_ge
  · intro j hj; simp only [Heap.length_update]; exact h.ids_lt j hj
  · exact h.wf
  · intro e' he'
    simp only [List.mem_append, List.mem_singleton] at he'
    rcases he' with he' | rfl
    · exact h.log e' he'
    · exact he
  · exact h.n3

theorem inv_update_top_es {reg n H0} {st : AState} (h : Inv reg n H0 st) (i : Nat) (hi : i = delayedId ∨ n ≤ i)
    (f : Scope → Scope) (hf : ∀ sc : Scope, (∀ kv ∈ sc.items, kv.2 = Val.none) → ∀ kv ∈ (f sc).items, kv.2 = Val.none)
    (es : List Effect) (he : ∀ e ∈ es, EffectOK reg n e) :
    Inv reg n H0 { st with heap := st.heap.update i f, log := st.log ++ es } := by
  constructor
  · intro j hj hjd
    simp only [Heap.get_update]
    have : ¬ (j = i ∧ i < st.heap.length) := by
      rintro ⟨rfl, _⟩
      rcases hi with hi | hi
      · exact hjd hi
      · omega
    rw [if_neg this]; exact h.user j hj hjd
  · intro j hj kv hkv
    simp only [Heap.get_update] at hkv
    split at hkv
    · rename_i hc
      exact hf _ (h.priv i hi) kv hkv
    · exact h.priv j hj kv hkv
  · exact h.top_ge
  · intro j hj; simp only [Heap.length_update]; exact h.ids_lt j hj
  · exact h.wf
  · intro e' he'
    simp only [List.mem_append] at he'
    rcases he' with he' | he'
    · exact h.log e' he'
    · exact he e' he'
  · exact h.n3

theorem inv_storeTop {reg n H0} {st : AState} (h : Inv reg n H0 st) (name : Str) :
    Inv reg n H0 (storeTop st name) ∧ Restores st (storeTop st name) := by
  refine ⟨?_, ⟨rfl, rfl, by simp [storeTop, Heap.length_update]⟩⟩
  unfold storeTop
  exact inv_update_top h _ (.inr h.top_ge) _ (fun sc hsc => by simpa [Scope.set] using assocSet_values hsc) _ (.inr h.top_ge)

theorem inv_deferLoad {reg n H0} {st : AState} (h : Inv reg n H0 st) (name : Str) :
    Inv reg n H0 (deferLoad reg st name) ∧ Restores st (deferLoad reg st name) := by
  have h1 : Inv reg n H0 (st.emit (symbolNeedsImport reg st.heap st.stack.ids name).2) :=
    h.emit (fun e he => (symbolNeedsImport_effects reg st.heap st.stack.ids name e he).ok n)
  unfold deferLoad
  dsimp only
  split
  · refine ⟨?_, ⟨rfl, rfl, by simp [AState.emit]⟩⟩
    have hlen : (st.emit (symbolNeedsImport reg st.heap st.stack.ids name).2).heap = st.heap := rfl
    have hstk : (st.emit (symbolNeedsImport reg st.heap st.stack.ids name).2).stack = st.stack := rfl
    constructor
    · intro j hj hjd
      have hjl : j < st.heap.length := by
        have := h.top_lt; have := h.top_ge; omega
      simp only [hlen]
      rw [Heap.get_append_left _ _ hjl]; exact h.user j hj hjd
    · intro j hj kv hkv
      simp only [hlen, hstk] at hkv
      by_cases hjl : j < st.heap.length
      · rw [Heap.get_append_left _ _ hjl] at hkv; exact h.priv j hj kv hkv
      · by_cases hje : j = st.heap.length
        · subst hje
          rw [Heap.get_append_new] at hkv
          exact h.priv _ (.inr h.top_ge) kv hkv
        · rw [Heap.get_ge] at hkv
          · simp at hkv
          · simp; omega
    · exact h.top_ge
    · intro j hj
      have := h.ids_lt j hj
      simp only [hlen, List.length_append, List.length_singleton]
      show j < st.heap.length + 1
      omega
    · exact h.wf
    · exact h1.log
    · exact h.n3
  · exact ⟨h1, ⟨rfl, rfl, Nat.le_refl _⟩⟩

/-- the stack one level up (`stack[:-1]`) still ends in a private scope -/
def UpOK (n : Nat) (st : AState) : Prop := n ≤ st.stack.up.top ∧ ∀ i ∈ st.stack.up.ids, i < st.heap.length

theorem UpOK.frame {n : Nat} {st st' : AState} (h : UpOK n st) (f : Restores st st') : UpOK n st' := by
  unfold UpOK at *
  rw [f.stack]
  exact ⟨h.1, fun i hi => Nat.lt_of_lt_of_le (h.2 i hi) f.heap⟩

/-! ### Hoare-style triples over op sequences -/

/-- running `ops` keeps the invariant and restores the scope stack -/
def HT (reg : Registry) (n : Nat) (H0 : Heap) (ops : List Op) : Prop :=
  ∀ st, Inv reg n H0 st → Inv reg n H0 (runOps reg st ops) ∧ Restores st (runOps reg st ops)

/-- same, for sequences that may contain an `_UpScopeCtx` at their own level -/
def HTU (reg : Registry) (n : Nat) (H0 : Heap) (ops : List Op) : Prop :=
  ∀ st, Inv reg n H0 st → UpOK n st → Inv reg n H0 (runOps reg st ops) ∧ Restores st (runOps reg st ops)

theorem runOps_append (reg : Registry) (st : AState) (a b : List Op) :
    runOps reg st (a ++ b) = runOps reg (runOps reg st a) b := by
  simp [runOps, List.foldl_append]

theorem runOps_cons (reg : Registry) (st : AState) (o : Op) (b : List Op) :
    runOps reg st (o :: b) = runOps reg (step reg st o) b := rfl

theorem runOps_nil (reg : Registry) (st : AState) : runOps reg st [] = st := rfl

variable {reg : Registry} {n : Nat} {H0 : Heap}

theorem HT.nil : HT reg n H0 [] := fun st h => ⟨h, Restores.refl st⟩

theorem HT.append {a b : List Op} (ha : HT reg n H0 a) (hb : HT reg n H0 b) : HT reg n H0 (a ++ b) := by
  intro st h
  rw [runOps_append]
  obtain ⟨h1, f1⟩ := ha st h
  obtain ⟨h2, f2⟩ := hb _ h1
  exact ⟨h2, f1.trans f2⟩

theorem HT.toU {a : List Op} (ha : HT reg n H0 a) : HTU reg n H0 a := fun st h _ => ha st h

theorem HTU.append {a b : List Op} (ha : HTU reg n H0 a) (hb : HTU reg n H0 b) : HTU reg n H0 (a ++ b) := by
  intro st h hu
  rw [runOps_append]
  obtain ⟨h1, f1⟩ := ha st h hu
  obtain ⟨h2, f2⟩ := hb _ h1 (hu.frame f1)
  exact ⟨h2, f1.trans f2⟩

theorem HT.single {o : Op} (h : ∀ st, Inv reg n H0 st → Inv reg n H0 (step reg st o) ∧ Restores st (step reg st o)) :
    HT reg n H0 [o] := fun st hst => h st hst

theorem HT.cons {o : Op} {b : List Op}
    (h : ∀ st, Inv reg n H0 st → Inv reg n H0 (step reg st o) ∧ Restores st (step reg st o)) (hb : HT reg n H0 b) :
    HT reg n H0 (o :: b) := HT.append (a := [o]) (HT.single h) hb

/-! ops that do not touch the scope stack -/

theorem step_setLine (l : Nat) (st : AState) (h : Inv reg n H0 st) :
    Inv reg n H0 (step reg st (.setLine l)) ∧ Restores st (step reg st (.setLine l)) :=
  ⟨h.of_eq rfl rfl rfl, ⟨rfl, rfl, Nat.le_refl _⟩⟩

theorem step_load (name : Str) (st : AState) (h : Inv reg n H0 st) :
    Inv reg n H0 (step reg st (.load name)) ∧ Restores st (step reg st (.load name)) := by
  simp only [step]
  split
  · obtain ⟨h1, f1⟩ := inv_deferLoad h name
    obtain ⟨h2, f2⟩ := inv_deferLoad h1 name
    exact ⟨h2, f1.trans f2⟩
  · exact inv_checkLoad h _ _ _

theorem step_store (name : Str) (st : AState) (h : Inv reg n H0 st) :
    Inv reg n H0 (step reg st (.store name)) ∧ Restores st (step reg st (.store name)) := inv_storeTop h name

theorem step_condEnter (st : AState) (h : Inv reg n H0 st) :
    Inv reg n H0 (step reg st .condEnter) ∧ Restores st (step reg st .condEnter) := ⟨h, Restores.refl st⟩

theorem step_condExit (st : AState) (h : Inv reg n H0 st) :
    Inv reg n H0 (step reg st .condExit) ∧ Restores st (step reg st .condExit) := ⟨h, Restores.refl st⟩

theorem step_handlerEnd (name : Str) (st : AState) (h : Inv reg n H0 st) :
    Inv reg n H0 (step reg st (.handlerEnd name)) ∧ Restores st (step reg st (.handlerEnd name)) := by
  simp only [step]
  have h1 : Inv reg n H0 (if ((st.heap.get st.stack.top).get name).isSome = true then
      { st with heap := st.heap.update st.stack.top (·.del name), log := st.log ++ [.nsDel st.stack.top name] } else st) ∧
      (if ((st.heap.get st.stack.top).get name).isSome = true then
      ({ st with heap := st.heap.update st.stack.top (·.del name), log := st.log ++ [.nsDel st.stack.top name] } : AState) else st).stack = st.stack ∧
      (if ((st.heap.get st.stack.top).get name).isSome = true then
      ({ st with heap := st.heap.update st.stack.top (·.del name), log := st.log ++ [.nsDel st.stack.top name] } : AState) else st).saved = st.saved ∧
      st.heap.length ≤ (if ((st.heap.get st.stack.top).get name).isSome = true then
      ({ st with heap := st.heap.update st.stack.top (·.del name), log := st.log ++ [.nsDel st.stack.top name] } : AState) else st).heap.length := by
    split
    · exact ⟨inv_update_top h st.stack.top (.inr h.top_ge) (·.del name)
        (fun sc hsc kv hkv => hsc kv (List.mem_filter.mp hkv).1) (.nsDel st.stack.top name) h.top_ge, rfl, rfl,
        by simp [Heap.length_update]⟩
    · exact ⟨h, rfl, rfl, Nat.le_refl _⟩
  obtain ⟨i1, i2, i3, i4⟩ := h1
  refine ⟨?_, ⟨i2, i3, by simp only [Heap.length_update]; exact i4⟩⟩
  exact inv_update_top_es i1 st.stack.top (.inr h.top_ge) (·.delBelow name)
    (fun sc hsc kv hkv => hsc kv (List.mem_filter.mp hkv).1) _
    (fun e he => by
      simp only [List.mem_map] at he
      obtain ⟨k, _, rfl⟩ := he
      exact h.top_ge)

theorem HT_condEnter (b : Bool) : HT reg n H0 (if b = true then [Op.condEnter] else []) := by
  split
  · exact HT.single step_condEnter
  · exact HT.nil

theorem HT_condExit (b : Bool) : HT reg n H0 (if b = true then [Op.condExit] else []) := by
  split
  · exact HT.single step_condExit
  · exact HT.nil

theorem step_enterFunc (st : AState) (h : Inv reg n H0 st) :
    Inv reg n H0 (step reg st .enterFunc) ∧ Restores st (step reg st .enterFunc) :=
  ⟨h.of_eq rfl rfl rfl, ⟨rfl, rfl, Nat.le_refl _⟩⟩

theorem step_exitFunc (st : AState) (h : Inv reg n H0 st) :
    Inv reg n H0 (step reg st .exitFunc) ∧ Restores st (step reg st .exitFunc) := by
  simp only [step]
  split
  · exact ⟨h, Restores.refl _⟩
  · exact ⟨h.of_eq rfl rfl rfl, ⟨rfl, rfl, Nat.le_refl _⟩⟩

theorem step_incClass (st : AState) (h : Inv reg n H0 st) :
    Inv reg n H0 (step reg st .incClass) ∧ Restores st (step reg st .incClass) :=
  ⟨h.of_eq rfl rfl rfl, ⟨rfl, rfl, Nat.le_refl _⟩⟩

theorem step_decClass (st : AState) (h : Inv reg n H0 st) :
    Inv reg n H0 (step reg st .decClass) ∧ Restores st (step reg st .decClass) :=
  ⟨h.of_eq rfl rfl rfl, ⟨rfl, rfl, Nat.le_refl _⟩⟩

theorem step_removeMissing (name : Str) (mo : Bool) (st : AState) (h : Inv reg n H0 st) :
    Inv reg n H0 (step reg st (.removeMissing name mo)) ∧ Restores st (step reg st (.removeMissing name mo)) := by
  simp only [step]
  split
  · exact ⟨h, Restores.refl st⟩
  · exact ⟨h.of_eq rfl rfl rfl, ⟨rfl, rfl, Nat.le_refl _⟩⟩

theorem step_dunderClass (st : AState) (h : Inv reg n H0 st) :
    Inv reg n H0 (step reg st .dunderClass) ∧ Restores st (step reg st .dunderClass) := by
  simp only [step]
  split
  · exact inv_storeTop h _
  · exact ⟨h, Restores.refl _⟩

theorem step_storeIfNotInClass (name : Str) (st : AState) (h : Inv reg n H0 st) :
    Inv reg n H0 (step reg st (.storeIfNotInClass name)) ∧ Restores st (step reg st (.storeIfNotInClass name)) := by
  simp only [step]
  split
  · exact inv_storeTop h _
  · exact ⟨h, Restores.refl _⟩

theorem step_classDelayed (name : Str) (mo : Bool) (st : AState) (h : Inv reg n H0 st) :
    Inv reg n H0 (step reg st (.classDelayed name mo)) ∧ Restores st (step reg st (.classDelayed name mo)) := by
  simp only [step]
  split
  · refine ⟨?_, ⟨rfl, rfl, by simp [Heap.length_update]⟩⟩
    exact inv_update_top h _ (.inl rfl) _ (fun sc hsc => by simpa [Scope.set] using assocSet_values hsc) _ (.inl rfl)
  · exact ⟨h, Restores.refl _⟩

theorem step_delName (name : Str) (deep : Bool) (st : AState) (h : Inv reg n H0 st) :
    Inv reg n H0 (step reg st (.delName name deep)) ∧ Restores st (step reg st (.delName name deep)) := by
  simp only [step]
  split
  · have h1 := inv_update_top h st.stack.top (.inr h.top_ge) (·.del name)
      (fun sc hsc kv hkv => hsc kv (List.mem_filter.mp hkv).1) (.nsDel st.stack.top name) h.top_ge
    split
    · refine ⟨?_, ⟨rfl, rfl, by simp [Heap.length_update]⟩⟩
      exact inv_update_top_es h1 st.stack.top (.inr h.top_ge) (·.delBelow name)
        (fun sc hsc kv hkv => hsc kv (List.mem_filter.mp hkv).1) _
        (fun e he => by
          simp only [List.mem_map] at he
          obtain ⟨k, _, rfl⟩ := he
          exact h.top_ge)
    · exact ⟨h1, ⟨rfl, rfl, by simp [Heap.length_update]⟩⟩
  · exact ⟨h, Restores.refl _⟩

theorem inv_deferGlobal (name : Str) (st : AState) (h : Inv reg n H0 st) :
    Inv reg n H0 (deferGlobal reg st name) ∧ Restores st (deferGlobal reg st name) := by
  have h1 : Inv reg n H0 (st.emit (symbolNeedsImport reg st.heap st.stack.ids name).2) :=
    h.emit (fun e he => (symbolNeedsImport_effects reg st.heap st.stack.ids name e he).ok n)
  unfold deferGlobal
  dsimp only
  split
  · exact ⟨h1.of_eq rfl rfl rfl, ⟨rfl, rfl, Nat.le_refl _⟩⟩
  · exact ⟨h1, ⟨rfl, rfl, Nat.le_refl _⟩⟩

theorem inv_foldl_deferGlobal (names : List Str) (st : AState) (h : Inv reg n H0 st) :
    Inv reg n H0 (names.foldl (deferGlobal reg) st) ∧ Restores st (names.foldl (deferGlobal reg) st) := by
  induction names generalizing st with
  | nil => exact ⟨h, Restores.refl _⟩
  | cons a r ih =>
    obtain ⟨h1, f1⟩ := inv_deferGlobal a st h
    obtain ⟨h2, f2⟩ := ih _ h1
    exact ⟨h2, f1.trans f2⟩

theorem step_allNames (names : List Str) (st : AState) (h : Inv reg n H0 st) :
    Inv reg n H0 (step reg st (.allNames names)) ∧ Restores st (step reg st (.allNames names)) := by
  simp only [step]
  split
  · exact ⟨h, Restores.refl _⟩
  · exact inv_foldl_deferGlobal names st h

/-! ### scope brackets -/

theorem getLastD_snoc (l : List Nat) (x d : Nat) : (l ++ [x]).getLastD d = x := by
  simp [List.getLastD_eq_getLast?]

theorem withNewScope_scopes (s : StackRef) (heap : Heap) (ic uh : Bool) (newId : Nat) :
    ∃ scopes, (s.withNewScope heap ic uh newId).ids = normIds (scopes ++ [newId]) ∧
      (∀ i ∈ scopes, i = delayedId ∨ i ∈ s.ids) ∧ (ic = true → uh = false → scopes = s.ids) := by
  unfold StackRef.withNewScope
  dsimp only
  by_cases hic : ic = true
  · by_cases hu : (uh = true ∧ s.sharedDelayed = true ∧ (heap.get delayedId).items ≠ [])
    · refine ⟨delayedId :: s.ids, by simp [hic, hu], ?_, ?_⟩
      · intro i hi; rcases List.mem_cons.mp hi with h | h
        · exact .inl h
        · exact .inr h
      · intro _ h; simp [h] at hu
    · refine ⟨s.ids, by simp [hic, hu], fun i hi => .inr hi, fun _ _ => rfl⟩
  · by_cases hu : (uh = true ∧ s.sharedDelayed = true ∧ (heap.get delayedId).items ≠ [])
    · refine ⟨delayedId :: s.ids.filter (fun i => !(heap.get i).isClass), by simp [hic, hu], ?_, fun h => absurd h hic⟩
      intro i hi; rcases List.mem_cons.mp hi with h | h
      · exact .inl h
      · exact .inr (List.mem_filter.mp h).1
    · refine ⟨s.ids.filter (fun i => !(heap.get i).isClass), by simp [hic, hu], ?_, fun h => absurd h hic⟩
      intro i hi; exact .inr (List.mem_filter.mp hi).1

/-- the state right after entering a `_NewScopeCtx` satisfies the invariant again -/
theorem inv_push {st : AState} (h : Inv reg n H0 st) (ic nc uh : Bool) :
    Inv reg n H0 (step reg st (.pushScope ic nc uh)) ∧
      (step reg st (.pushScope ic nc uh)).saved = st.stack :: st.saved ∧
      (step reg st (.pushScope ic nc uh)).heap.length = st.heap.length + 1 ∧
      (step reg st (.pushScope ic nc uh)).stack.top = st.heap.length ∧
      (ic = true → uh = false → UpOK n (step reg st (.pushScope ic nc uh))) := by
  have hlen3 : 3 ≤ st.heap.length := by have := h.top_lt; have := h.top_ge; have := h.n3; omega
  obtain ⟨scopes, hids, hsc, hsame⟩ := withNewScope_scopes st.stack st.heap ic uh st.heap.length
  have hfresh : st.heap.length ∉ scopes := by
    intro hm
    rcases hsc _ hm with hd | hd
    · unfold delayedId at hd; omega
    · exact Nat.lt_irrefl _ (h.ids_lt _ hd)
  have hids' : (st.stack.withNewScope st.heap ic uh st.heap.length).ids = normIds scopes ++ [st.heap.length] := by
    rw [hids, normIds_snoc_fresh (by omega) (by omega) hfresh]
  have htop : (st.stack.withNewScope st.heap ic uh st.heap.length).top = st.heap.length := by
    unfold StackRef.top; rw [hids', getLastD_snoc]
  refine ⟨?_, rfl, by simp [step], htop, ?_⟩
  · constructor
    · intro j hj hjd
      have hjl : j < st.heap.length := by have := h.top_lt; have := h.top_ge; omega
      show Heap.get (st.heap ++ [_]) j = _
      rw [Heap.get_append_left _ _ hjl]; exact h.user j hj hjd
    · intro j hj kv hkv
      change kv ∈ (Heap.get (st.heap ++ [_]) j).items at hkv
      by_cases hjl : j < st.heap.length
      · rw [Heap.get_append_left _ _ hjl] at hkv; exact h.priv j hj kv hkv
      · by_cases hje : j = st.heap.length
        · subst hje; rw [Heap.get_append_new] at hkv; simp at hkv
        · rw [Heap.get_ge] at hkv
          · simp at hkv
          · simp; omega
    · show n ≤ (st.stack.withNewScope st.heap ic uh st.heap.length).top
      rw [htop]; have := h.top_lt; have := h.top_ge; omega
    · intro j hj
      change j ∈ (st.stack.withNewScope st.heap ic uh st.heap.length).ids at hj
      show j < (st.heap ++ [_]).length
      rw [hids'] at hj
      simp only [List.length_append, List.length_singleton]
      rcases List.mem_append.mp hj with hj | hj
      · rcases mem_normIds hj with h0 | h1 | hm
        · omega
        · omega
        · rcases hsc _ hm with hd | hd
          · unfold delayedId at hd; omega
          · have := h.ids_lt _ hd; omega
      · simp at hj; omega
    · show normIds (st.stack.withNewScope st.heap ic uh st.heap.length).ids
          = (st.stack.withNewScope st.heap ic uh st.heap.length).ids
      rw [hids, normIds_idem]
    · exact h.log
    · exact h.n3
  · intro hic huh
    have hs := hsame hic huh
    have hup : (st.stack.withNewScope st.heap ic uh st.heap.length).up.ids = st.stack.ids := by
      unfold StackRef.up
      simp only
      rw [hids', List.dropLast_concat, normIds_idem, hs, h.wf]
    unfold UpOK
    show n ≤ (st.stack.withNewScope st.heap ic uh st.heap.length).up.top ∧ _
    constructor
    · unfold StackRef.top; rw [hup]; exact h.top_ge
    · intro i hi
      change i ∈ (st.stack.withNewScope st.heap ic uh st.heap.length).up.ids at hi
      rw [hup] at hi
      show i < (st.heap ++ [_]).length
      have := h.ids_lt i hi
      simp; omega

/-- leaving a `_NewScopeCtx` -/
theorem inv_pop {st st2 : AState} (h : Inv reg n H0 st) (h2 : Inv reg n H0 st2)
    (hsaved : st2.saved = st.stack :: st.saved) (hheap : st.heap.length ≤ st2.heap.length) :
    Inv reg n H0 (step reg st2 .popScope) ∧ Restores st (step reg st2 .popScope) := by
  simp only [step, hsaved, AState.emit]
  refine ⟨?_, ⟨rfl, rfl, hheap⟩⟩
  constructor
  · exact h2.user
  · exact h2.priv
  · exact h.top_ge
  · intro i hi; exact Nat.lt_of_lt_of_le (h.ids_lt i hi) hheap
  · exact h.wf
  · intro e he
    simp only [List.mem_append, List.mem_map] at he
    rcases he with he | ⟨kv, hkv, rfl⟩
    · exact h2.log e he
    · exact h2.priv _ (.inr h2.top_ge) kv hkv
  · exact h.n3

theorem HT.bracket (ic nc uh : Bool) {mid : List Op} (hm : HT reg n H0 mid) :
    HT reg n H0 (.pushScope ic nc uh :: (mid ++ [.popScope])) := by
  intro st h
  rw [runOps_cons, runOps_append]
  obtain ⟨h1, hs1, hl1, _, _⟩ := inv_push h ic nc uh
  obtain ⟨h2, f2⟩ := hm _ h1
  exact inv_pop h h2 (by rw [f2.saved, hs1]) (by have := f2.heap; omega)

theorem HTU.bracket (nc : Bool) {mid : List Op} (hm : HTU reg n H0 mid) :
    HT reg n H0 (.pushScope true nc false :: (mid ++ [.popScope])) := by
  intro st h
  rw [runOps_cons, runOps_append]
  obtain ⟨h1, hs1, hl1, _, hu⟩ := inv_push h true nc false
  obtain ⟨h2, f2⟩ := hm _ h1 (hu rfl rfl)
  exact inv_pop h h2 (by rw [f2.saved, hs1]) (by have := f2.heap; omega)

theorem step_downScope_of_saved {st2 : AState} {s : StackRef} {r : List StackRef} (h : st2.saved = s :: r) :
    step reg st2 .downScope = { st2 with stack := s, saved := r } := by
  simp only [step, h]

/-- `_UpScopeCtx` around a frame-preserving visit -/
theorem HTU.updown {mid : List Op} (hm : HT reg n H0 mid) : HTU reg n H0 (.upScope :: (mid ++ [.downScope])) := by
  intro st h hu
  rw [runOps_cons, runOps_append]
  have h1 : Inv reg n H0 (step reg st .upScope) := by
    simp only [step]
    constructor
    · exact h.user
    · exact h.priv
    · exact hu.1
    · exact hu.2
    · show normIds (normIds _) = normIds _; exact normIds_idem _
    · exact h.log
    · exact h.n3
  obtain ⟨h2, f2⟩ := hm _ h1
  have hsaved : (runOps reg (step reg st .upScope) mid).saved = st.stack :: st.saved := by rw [f2.saved]; rfl
  have hheap : st.heap.length ≤ (runOps reg (step reg st .upScope) mid).heap.length := f2.heap
  rw [runOps_cons, runOps_nil, step_downScope_of_saved hsaved]
  refine ⟨?_, ⟨rfl, rfl, hheap⟩⟩
  constructor
  · exact h2.user
  · exact h2.priv
  · exact h.top_ge
  · intro i hi; exact Nat.lt_of_lt_of_le (h.ids_lt i hi) hheap
  · exact h.wf
  · exact h2.log
  · exact h.n3

/-! ### every visit keeps the invariant and restores the scope stack -/

theorem HT.stores (names : List Str) : HT reg n H0 (names.map Op.store) := by
  induction names with
  | nil => exact HT.nil
  | cons a r ih => exact HT.cons (step_store a) ih

theorem HT.mapStores {α : Type} (f : α → Str) (l : List α) : HT reg n H0 (l.map (fun p => Op.store (f p))) := by
  induction l with
  | nil => exact HT.nil
  | cons a r ih => exact HT.cons (step_store (f a)) ih

mutual
  theorem cExpr_HT (fx : Fixes) : ∀ e : Expr, HT reg n H0 (cExpr fx e)
    | .name nm => by simp only [cExpr]; exact HT.single (step_load nm)
    | .attr e a => by
      simp only [cExpr]
      split
      · exact HT.single (step_load _)
      · exact cExpr_HT fx e
    | .call f args => by simp only [cExpr]; exact (cExpr_HT fx f).append (cExprs_HT fx args)
    | .const => by simp only [cExpr]; exact HT.nil
    | .bool _ => by simp only [cExpr]; exact HT.nil
    | .str _ => by simp only [cExpr]; exact HT.nil
    | .binop l r => by simp only [cExpr]; exact (cExpr_HT fx l).append (cExpr_HT fx r)
    | .lambda a body => by
      simp only [cExpr]
      have : [Op.pushScope true false false] ++ cArgs fx a ++ [Op.enterFunc, Op.pushScope false false false] ++ cExpr fx body
              ++ [Op.popScope, Op.exitFunc, Op.popScope]
           = Op.pushScope true false false ::
              ((cArgs fx a ++ ([Op.enterFunc] ++ (Op.pushScope false false false :: (cExpr fx body ++ [Op.popScope])) ++ [Op.exitFunc]))
                ++ [Op.popScope]) := by simp
      rw [this]
      apply HTU.bracket
      apply HTU.append (cArgs_HTU fx a)
      apply HT.toU
      exact ((HT.single step_enterFunc).append (HT.bracket _ _ _ (cExpr_HT fx body))).append (HT.single step_exitFunc)
    | .comp _ elts gens => by
      have base : HT reg n H0 ([Op.pushScope true false false] ++ cGens fx gens ++ cExprs fx elts ++ [Op.popScope]) := by
        have : [Op.pushScope true false false] ++ cGens fx gens ++ cExprs fx elts ++ [Op.popScope]
             = Op.pushScope true false false :: ((cGens fx gens ++ cExprs fx elts) ++ [Op.popScope]) := by simp
        rw [this]
        exact HT.bracket _ _ _ ((cGens_HT fx gens).append (cExprs_HT fx elts))
      match gens with
      | [] =>
        simp only [cExpr]
        split
        · have : [Op.pushScope true false false] ++ cExprs fx elts ++ [Op.popScope]
               = Op.pushScope true false false :: (cExprs fx elts ++ [Op.popScope]) := by simp
          rw [this]
          exact HT.bracket _ _ _ (cExprs_HT fx elts)
        · exact base
      | .mk t it ifs :: gs =>
        simp only [cExpr]
        split
        · have : cExpr fx it ++ [Op.pushScope false false false] ++ cTarget fx t ++ cExprs fx ifs ++ cGens fx gs ++ cExprs fx elts
                  ++ [Op.popScope]
               = cExpr fx it ++ (Op.pushScope false false false ::
                  ((cTarget fx t ++ cExprs fx ifs ++ cGens fx gs ++ cExprs fx elts) ++ [Op.popScope])) := by simp
          rw [this]
          exact (cExpr_HT fx it).append (HT.bracket _ _ _
            ((((cTarget_HT fx t).append (cExprs_HT fx ifs)).append (cGens_HT fx gs)).append (cExprs_HT fx elts)))
        · exact base
    | .ifExp t a b => by simp only [cExpr]; exact ((cExpr_HT fx t).append (cExpr_HT fx a)).append (cExpr_HT fx b)
    | .tuple es => by simp only [cExpr]; exact cExprs_HT fx es
    | .list es => by simp only [cExpr]; exact cExprs_HT fx es
    | .subscript v i => by simp only [cExpr]; exact (cExpr_HT fx v).append (cExpr_HT fx i)
  theorem cExprs_HT (fx : Fixes) : ∀ es : List Expr, HT reg n H0 (cExprs fx es)
    | [] => by simp only [cExprs]; exact HT.nil
    | e :: es => by simp only [cExprs]; exact (cExpr_HT fx e).append (cExprs_HT fx es)
  theorem cTarget_HT (fx : Fixes) : ∀ e : Expr, HT reg n H0 (cTarget fx e)
    | .name nm => by simp only [cTarget]; exact HT.single (step_store nm)
    | .attr e a => by
      simp only [cTarget]
      split
      · exact HT.single (step_store _)
      · exact cExpr_HT fx e
    | .tuple es => by simp only [cTarget]; exact cTargets_HT fx es
    | .list es => by simp only [cTarget]; exact cTargets_HT fx es
    | .subscript v i => by simp only [cTarget]; exact (cExpr_HT fx v).append (cExpr_HT fx i)
    | .call _ _ => by simp only [cTarget]; exact HT.nil
    | .const => by simp only [cTarget]; exact HT.nil
    | .bool _ => by simp only [cTarget]; exact HT.nil
    | .str _ => by simp only [cTarget]; exact HT.nil
    | .binop _ _ => by simp only [cTarget]; exact HT.nil
    | .lambda _ _ => by simp only [cTarget]; exact HT.nil
    | .comp _ _ _ => by simp only [cTarget]; exact HT.nil
    | .ifExp _ _ _ => by simp only [cTarget]; exact HT.nil
  theorem cTargets_HT (fx : Fixes) : ∀ es : List Expr, HT reg n H0 (cTargets fx es)
    | [] => by simp only [cTargets]; exact HT.nil
    | e :: es => by simp only [cTargets]; exact (cTarget_HT fx e).append (cTargets_HT fx es)
  theorem cGens_HT (fx : Fixes) : ∀ gs : List Gen, HT reg n H0 (cGens fx gs)
    | [] => by simp only [cGens]; exact HT.nil
    | .mk t it ifs :: gs => by
      simp only [cGens]
      exact (((cExpr_HT fx it).append (cTarget_HT fx t)).append (cExprs_HT fx ifs)).append (cGens_HT fx gs)
  theorem cOptExprs_HT (fx : Fixes) : ∀ es : List (Option Expr), HT reg n H0 (cOptExprs fx es)
    | [] => by simp only [cOptExprs]; exact HT.nil
    | none :: r => by simp only [cOptExprs]; exact cOptExprs_HT fx r
    | some e :: r => by simp only [cOptExprs]; exact (cExpr_HT fx e).append (cOptExprs_HT fx r)
  theorem cParams_HT (fx : Fixes) : ∀ ps : List Param, HT reg n H0 (cParams fx ps)
    | [] => by simp only [cParams]; exact HT.nil
    | .mk nm none :: ps => by simp only [cParams]; exact HT.cons (step_store nm) (cParams_HT fx ps)
    | .mk nm (some ann) :: ps => by
      simp only [cParams]
      split
      · exact HT.nil.append (HT.cons (step_store nm) (cParams_HT fx ps))
      · exact (cExpr_HT fx ann).append (HT.cons (step_store nm) (cParams_HT fx ps))
  theorem cParamAnns_HT (fx : Fixes) : ∀ ps : List Param, HT reg n H0 (cParamAnns fx ps)
    | [] => by simp only [cParamAnns]; exact HT.nil
    | .mk _ none :: ps => by simp only [cParamAnns]; exact cParamAnns_HT fx ps
    | .mk _ (some ann) :: ps => by
      simp only [cParamAnns]
      exact (cExpr_HT fx ann).append (cParamAnns_HT fx ps)
  theorem cArgs_HTU (fx : Fixes) : ∀ a : Args, HTU reg n H0 (cArgs fx a)
    | .mk args defaults vararg kwonly kwdefaults kwarg => by
      simp only [cArgs]
      have key : ∀ an va kw : List Op, HT reg n H0 an → HT reg n H0 va → HT reg n H0 kw →
          HTU reg n H0 ([Op.upScope] ++ cExprs fx defaults ++ cOptExprs fx kwdefaults ++ an ++ [Op.downScope] ++ cParams fx args
            ++ cParams fx kwonly ++ va ++ kw) := by
        intro an va kw han hva hkw
        have : [Op.upScope] ++ cExprs fx defaults ++ cOptExprs fx kwdefaults ++ an ++ [Op.downScope] ++ cParams fx args ++ cParams fx kwonly
                ++ va ++ kw
             = (Op.upScope :: (((cExprs fx defaults ++ cOptExprs fx kwdefaults) ++ an) ++ [Op.downScope]))
                ++ (cParams fx args ++ cParams fx kwonly ++ va ++ kw) := by simp
        rw [this]
        apply HTU.append (HTU.updown (((cExprs_HT fx defaults).append (cOptExprs_HT fx kwdefaults)).append han))
        exact HT.toU ((((cParams_HT fx args).append (cParams_HT fx kwonly)).append hva).append hkw)
      apply key
      · split
        · exact (cParamAnns_HT fx args).append (cParamAnns_HT fx kwonly)
        · exact HT.nil
      · cases vararg with
        | none => exact HT.nil
        | some v => exact HT.single (step_store v)
      · cases kwarg with
        | none => exact HT.nil
        | some v => exact HT.single (step_store v)
end

theorem cOptExpr_HT (fx : Fixes) (e : Option Expr) : HT reg n H0 (cOptExpr fx e) := by
  cases e with
  | none => exact HT.nil
  | some e => exact cExpr_HT fx e

theorem inv_foldl_storeTop (keys : List Str) (st : AState) (h : Inv reg n H0 st) :
    Inv reg n H0 (keys.foldl storeTop st) ∧ Restores st (keys.foldl storeTop st) := by
  induction keys generalizing st with
  | nil => exact ⟨h, Restores.refl _⟩
  | cons k r ih =>
    obtain ⟨h1, f1⟩ := inv_storeTop h k
    obtain ⟨h2, f2⟩ := ih _ h1
    exact ⟨h2, f1.trans f2⟩

theorem step_importAlias (keys : List Str) (bind : Str) (idx : Nat) (plain : Bool) (st : AState) (h : Inv reg n H0 st) :
    Inv reg n H0 (step reg st (.importAlias keys bind idx plain)) ∧
      Restores st (step reg st (.importAlias keys bind idx plain)) := inv_foldl_storeTop keys st h

theorem cAliases_HT (m : Option Str) : ∀ (idx : Nat) (names : List Alias), HT reg n H0 (cAliases m idx names)
  | _, [] => HT.nil
  | idx, a :: r => by
    simp only [cAliases, cAlias]
    exact HT.cons (step_importAlias _ _ _ _) (cAliases_HT m (idx + 1) r)

theorem cWithItems_HT (fx : Fixes) : ∀ ws : List WithItem, HT reg n H0 (cWithItems fx ws)
  | [] => by simp only [cWithItems]; exact HT.nil
  | w :: ws => by
    simp only [cWithItems]
    refine ((cExpr_HT fx w.ctx).append ?_).append (cWithItems_HT fx ws)
    cases w.target with
    | none => exact HT.nil
    | some t => exact cTarget_HT fx t

theorem cDecos_HT (fx : Fixes) (ln : Nat) : ∀ ds : List Expr, HT reg n H0 (cDecos fx ln ds)
  | [] => by simp only [cDecos]; exact HT.nil
  | d :: ds => by
    simp only [cDecos]
    exact HT.cons (step_setLine _) ((cExpr_HT fx d).append (cDecos_HT fx ln ds))

theorem cDelTargets_HT (fx : Fixes) : ∀ ts : List Expr, HT reg n H0 (cDelTargets fx ts)
  | [] => by simp only [cDelTargets]; exact HT.nil
  | t :: r => by
    cases t <;> simp only [cDelTargets] <;>
      first
        | exact HT.cons (step_delName _ _) (cDelTargets_HT fx r)
        | exact (cExpr_HT fx _).append (cDelTargets_HT fx r)

theorem cAugLoad_HT (fx : Fixes) (t : Expr) : HT reg n H0 (cAugLoad fx t) := by
  unfold cAugLoad
  split
  · exact HT.single (step_load _)
  · split
    · exact HT.single (step_load _)
    · exact cExpr_HT fx _
  · exact HT.nil

theorem cAnnBare_HT (fx : Fixes) (t : Expr) : HT reg n H0 (cAnnBare fx t) := by
  unfold cAnnBare
  split
  · exact cExpr_HT fx _
  · exact (cExpr_HT fx _).append (cExpr_HT fx _)
  · exact HT.nil

theorem allNames_HT (targets : List Expr) (v : Expr) : HT reg n H0 (cAll targets v) := by
  unfold cAll
  split
  · split
    · split
      · exact HT.single (step_allNames _)
      · exact HT.nil
    · exact HT.nil
  · exact HT.nil

mutual
  theorem cStmt_HT (fx : Fixes) : ∀ (ln : Nat) (s : Stmt), HT reg n H0 (cStmt fx ln s)
    | _, .expr e => by simp only [cStmt]; exact cExpr_HT fx e
    | _, .assign targets v => by
      simp only [cStmt]
      exact ((cExpr_HT fx v).append (cTargets_HT fx targets)).append (allNames_HT targets v)
    | _, .augAssign t v => by
      simp only [cStmt]
      split
      · exact ((cAugLoad_HT fx t).append (cExpr_HT fx v)).append (cTarget_HT fx t)
      · exact (cTarget_HT fx t).append (cExpr_HT fx v)
    | _, .annAssign t ann v => by
      simp only [cStmt]
      split
      · refine HT.append ?_ (cExpr_HT fx ann)
        cases v with
        | none => exact cAnnBare_HT fx t
        | some e => exact (cExpr_HT fx e).append (cTarget_HT fx t)
      · exact ((cTarget_HT fx t).append (cExpr_HT fx ann)).append (cOptExpr_HT fx v)
    | _, .import_ names => by simp only [cStmt]; exact cAliases_HT _ _ names
    | _, .importFrom _ names => by simp only [cStmt]; exact cAliases_HT _ _ names
    | ln, .funcDef name a body decos returns => by
      simp only [cStmt]
      have : [Op.pushScope true false false, Op.dunderClass] ++ cDecos fx ln decos ++ [Op.setLine ln] ++ cArgs fx a ++ cRet fx returns
              ++ [Op.enterFunc, Op.pushScope false false true, Op.storeIfNotInClass name] ++ cStmts fx ln body
              ++ [Op.popScope, Op.exitFunc, Op.popScope, Op.store name]
           = (Op.pushScope true false false ::
                (([Op.dunderClass] ++ cDecos fx ln decos ++ [Op.setLine ln] ++ cArgs fx a ++ cRet fx returns ++
                   ([Op.enterFunc] ++
                     (Op.pushScope false false true :: (([Op.storeIfNotInClass name] ++ cStmts fx ln body) ++ [Op.popScope]))
                     ++ [Op.exitFunc])) ++ [Op.popScope])) ++ [Op.store name] := by simp
      rw [this]
      refine HT.append (HTU.bracket _ ?_) (HT.single (step_store name))
      refine HTU.append (HTU.append (HTU.append (HT.toU ?_) (cArgs_HTU fx a)) ?_) (HT.toU ?_)
      · exact ((HT.single step_dunderClass).append (cDecos_HT fx ln decos)).append (HT.single (step_setLine ln))
      · cases returns with
        | none => exact HT.toU HT.nil
        | some r =>
          simp only [cRet]
          split
          · exact HTU.updown (cExpr_HT fx r)
          · exact HT.toU (cExpr_HT fx r)
      · refine ((HT.single step_enterFunc).append ?_).append (HT.single step_exitFunc)
        exact HT.bracket _ _ _ ((HT.single (step_storeIfNotInClass name)).append (cStmts_HT fx ln body))
    | ln, .classDef name bases body decos => by
      simp only [cStmt]
      have : cExprs fx bases ++ cDecos fx ln decos ++ [Op.classDelayed name fx.classModuleOnly, Op.pushScope false true false, Op.incClass, Op.store name]
              ++ cStmts fx ln body ++ [Op.decClass, Op.popScope, Op.removeMissing name fx.classModuleOnly, Op.store name]
           = (cExprs fx bases ++ cDecos fx ln decos ++ [Op.classDelayed name fx.classModuleOnly]) ++
              (Op.pushScope false true false :: (([Op.incClass, Op.store name] ++ cStmts fx ln body ++ [Op.decClass]) ++ [Op.popScope]))
              ++ [Op.removeMissing name fx.classModuleOnly, Op.store name] := by simp
      rw [this]
      refine ((((cExprs_HT fx bases).append (cDecos_HT fx ln decos)).append (HT.single (step_classDelayed name _))).append ?_).append
        (HT.cons (step_removeMissing name _) (HT.single (step_store name)))
      apply HT.bracket
      exact ((HT.cons step_incClass (HT.single (step_store name))).append (cStmts_HT fx ln body)).append (HT.single step_decClass)
    | ln, .for_ t it body orelse => by
      simp only [cStmt]
      refine ((HT_condEnter _).append ((HT.append ?_ (cStmts_HT fx ln body)).append (cStmts_HT fx ln orelse))).append (HT_condExit _)
      split
      · exact (cExpr_HT fx it).append (cTarget_HT fx t)
      · exact (cTarget_HT fx t).append (cExpr_HT fx it)
    | ln, .while_ t body orelse => by
      simp only [cStmt]
      exact ((HT_condEnter _).append (((cExpr_HT fx t).append (cStmts_HT fx ln body)).append (cStmts_HT fx ln orelse))).append (HT_condExit _)
    | ln, .if_ t body orelse => by
      simp only [cStmt]
      exact ((HT_condEnter _).append (((cExpr_HT fx t).append (cStmts_HT fx ln body)).append (cStmts_HT fx ln orelse))).append (HT_condExit _)
    | ln, .with_ items body => by simp only [cStmt]; exact (cWithItems_HT fx items).append (cStmts_HT fx ln body)
    | ln, .try_ body hs orelse final => by
      simp only [cStmt]
      exact ((HT_condEnter _).append ((((cStmts_HT fx ln body).append (cHandlers_HT fx ln hs)).append (cStmts_HT fx ln orelse)).append
        (cStmts_HT fx ln final))).append (HT_condExit _)
    | _, .return_ e => by simp only [cStmt]; exact cOptExpr_HT fx e
    | _, .pass => by simp only [cStmt]; exact HT.nil
    | _, .raise_ e => by simp only [cStmt]; exact cExpr_HT fx e
    | _, .delete targets => by simp only [cStmt]; exact cDelTargets_HT fx targets
    | _, .global_ _ => by simp only [cStmt]; exact HT.nil
    | _, .nonlocal_ _ => by simp only [cStmt]; exact HT.nil
    | _, .located l s => by simp only [cStmt]; exact HT.cons (step_setLine l) (cStmt_HT fx l s)
  theorem cStmts_HT (fx : Fixes) : ∀ (ln : Nat) (ss : List Stmt), HT reg n H0 (cStmts fx ln ss)
    | _, [] => by simp only [cStmts]; exact HT.nil
    | ln, s :: ss => by simp only [cStmts]; exact (cStmt_HT fx ln s).append (cStmts_HT fx ln ss)
  theorem cHandlers_HT (fx : Fixes) : ∀ (ln : Nat) (hs : List Handler), HT reg n H0 (cHandlers fx ln hs)
    | _, [] => by simp only [cHandlers]; exact HT.nil
    | ln, .mk l type name body :: hs => by
      simp only [cHandlers]
      refine HT.append (a := Op.setLine l :: _) (HT.cons (step_setLine l) ?_) (cHandlers_HT fx ln hs)
      refine (((cOptExpr_HT fx type).append ?_).append (cStmts_HT fx l body)).append ?_
      · cases name with
        | none => exact HT.nil
        | some nm => exact HT.single (step_store nm)
      · cases name with
        | none => exact HT.nil
        | some nm =>
          simp only []
          split
          · split
            · exact HT.single (step_handlerEnd nm)
            · exact HT.single (step_delName nm false)
          · exact HT.nil
end

/-! ### the whole analysis -/

theorem inv_finishDeferred {st : AState} (h : Inv reg n H0 st) : Inv reg n H0 (finishDeferred reg st) := by
  unfold finishDeferred
  have : ∀ (ds : List Deferred) (st : AState), Inv reg n H0 st →
      Inv reg n H0 (ds.foldl (fun st d => checkLoad reg st d.name d.ids d.line) st) := by
    intro ds
    induction ds with
    | nil => intro st h; exact h
    | cons d r ih => intro st h; exact ih _ (inv_checkLoad h _ _ _).1
  exact (this _ _ h).of_eq rfl rfl rfl

theorem inv_init (reg : Registry) (builtins : Scope) (userNs : List Scope) :
    Inv reg (3 + userNs.length) (initState builtins userNs).heap (initState builtins userNs) := by
  have hlen : (initState builtins userNs).heap.length = 3 + userNs.length + 1 := by
    simp [initState]; omega
  obtain ⟨scopes, hids⟩ : ∃ scopes, (initState builtins userNs).stack.ids = normIds (scopes ++ [3 + userNs.length]) ∧
      ∀ i ∈ scopes, i < 3 + userNs.length := by
    refine ⟨_, rfl, ?_⟩
    intro i hi
    have hi := (List.mem_filter.mp hi).1
    rcases mem_normIds hi with h | h | h
    · omega
    · omega
    · simp only [List.mem_map, List.mem_range] at h
      obtain ⟨a, ha, rfl⟩ := h; omega
  have hfresh : (3 + userNs.length) ∉ scopes := fun hm => Nat.lt_irrefl _ (hids.2 _ hm)
  have hids' : (initState builtins userNs).stack.ids = normIds scopes ++ [3 + userNs.length] := by
    rw [hids.1, normIds_snoc_fresh (by omega) (by omega) hfresh]
  constructor
  · intro i _ _; rfl
  · intro i hi kv hkv
    rcases hi with hi | hi
    · subst hi
      simp [initState, Heap.get, delayedId] at hkv
    · by_cases hie : i = 3 + userNs.length
      · subst hie
        have : (initState builtins userNs).heap.get (3 + userNs.length) = {} := by
          have h1 : (initState builtins userNs).heap
              = ([builtins, ({ items := [("__file__".toList, Val.none)] } : Scope), ({} : Scope)] ++ userNs) ++ [({} : Scope)] := rfl
          have h2 : 3 + userNs.length
              = ([builtins, ({ items := [("__file__".toList, Val.none)] } : Scope), ({} : Scope)] ++ userNs).length := by
            simp; omega
          rw [h1, h2, Heap.get_append_new]
        rw [this] at hkv; simp at hkv
      · rw [Heap.get_ge _ (by rw [hlen]; omega)] at hkv; simp at hkv
  · unfold StackRef.top; rw [hids', getLastD_snoc]; exact Nat.le_refl _
  · intro i hi
    rw [hids'] at hi
    rw [hlen]
    rcases List.mem_append.mp hi with hi | hi
    · rcases mem_normIds hi with h | h | h
      · omega
      · omega
      · have := hids.2 _ h; omega
    · simp at hi; omega
  · rw [hids.1, normIds_idem]
  · intro e he; simp [initState] at he
  · omega

theorem inv_analyzeFx (fx : Fixes) (reg : Registry) (builtins : Scope) (userNs : List Scope) (prog : List Stmt) :
    Inv reg (3 + userNs.length) (initState builtins userNs).heap (analyzeFx fx reg builtins userNs prog) := by
  unfold analyzeFx
  exact inv_finishDeferred ((cStmts_HT fx 0 prog) _ (inv_init reg builtins userNs)).1

theorem inv_analyze (reg : Registry) (builtins : Scope) (userNs : List Scope) (prog : List Stmt) :
    Inv reg (3 + userNs.length) (initState builtins userNs).heap (analyze reg builtins userNs prog) :=
  inv_analyzeFx {} reg builtins userNs prog

theorem initHeap_user (builtins : Scope) (ns : List Scope) (i : Nat) (hi : i < ns.length) :
    (initState builtins ns).heap.get (3 + i) = ns.getD i {} := by
  have h1 : (initState builtins ns).heap
      = [builtins, ({ items := [("__file__".toList, Val.none)] } : Scope), ({} : Scope)] ++ (ns ++ [({} : Scope)]) := by
    simp [initState]
  rw [h1]
  simp only [Heap.get, List.getD_eq_getElem?_getD]
  rw [List.getElem?_append_right (by simp)]
  simp [List.getElem?_append_left hi]


theorem initHeap_priv (builtins : Scope) (ns : List Scope) :
    (initState builtins ns).heap.get (3 + ns.length) = {} := by
  have h1 : (initState builtins ns).heap
      = ([builtins, ({ items := [("__file__".toList, Val.none)] } : Scope), ({} : Scope)] ++ ns) ++ [({} : Scope)] := rfl
  have h2 : 3 + ns.length
      = ([builtins, ({ items := [("__file__".toList, Val.none)] } : Scope), ({} : Scope)] ++ ns).length := by
    simp; omega
  rw [h1, h2, Heap.get_append_new]

theorem initState_ids (builtins : Scope) (ns : List Scope) :
    ∃ scopes, (initState builtins ns).stack.ids = normIds scopes ++ [3 + ns.length] ∧
      scopes = (normIds ((List.range ns.length).map (· + 3))).filter
        (fun i => !((initState builtins ns).heap.get i).isClass) := by
  refine ⟨_, ?_, rfl⟩
  have hfresh : (3 + ns.length) ∉ (normIds ((List.range ns.length).map (· + 3))).filter
        (fun i => !((initState builtins ns).heap.get i).isClass) := by
    intro hm
    have hi := (List.mem_filter.mp hm).1
    rcases mem_normIds hi with h | h | h
    · omega
    · omega
    · simp only [List.mem_map, List.mem_range] at h
      obtain ⟨a, ha, hh⟩ := h; omega
  exact normIds_snoc_fresh (by omega) (by omega) hfresh

end Pfb.PyCore
