/-
  Pfb.PyCore.Analyze — model of `_MissingImportFinder` in `find_missing_imports` mode
  (`find_unused_imports=False`, `parse_docstrings=False`), lib/python/pyflyby/_autoimp.py:371-1125.

  The visitor's control flow does not depend on its state except through a few flags, so the model is split in
  two: `compile` turns the AST into the exact sequence of primitive visitor actions (`Op`) in visit order, and
  `step` executes one action on the visitor state.  `findMissing` = run all actions, finish the deferred load
  checks, `sorted(set(...))`.
-/
import Pfb.PyCore.Scope
namespace Pfb.PyCore

inductive Op
  | setLine (n : Nat)                      -- `self._lineno = node.lineno`
  | load (fullname : Str)                  -- `_visit_Load`
  | store (fullname : Str)                 -- `_visit_Store(fullname)` (value None)
  | pushScope (includeClass newClass unhide : Bool)   -- enter `_NewScopeCtx`
  | popScope                               -- leave `_NewScopeCtx`
  | upScope | downScope                    -- `_UpScopeCtx`
  | enterFunc | exitFunc                   -- save/set/restore `_in_FunctionDef`
  | classDelayed (name : Str)              -- `if self._in_class_def == 0: scopestack._class_delayed[name] = None`
  | incClass | decClass
  | removeMissing (name : Str)             -- `_remove_from_missing_imports`
  | dunderClass                            -- `if self._in_class_def: scopestack[-1]["__class__"] = None`
  | storeIfNotInClass (name : Str)         -- `if not self._in_class_def: self._visit_Store(name)`
  | allNames (names : List Str)            -- `_visit__all__` on a list/tuple of string constants
  | delName (name : Str)                   -- `visit_Delete`, Name target
  deriving DecidableEq, Repr

/-! ### compile: AST → visitor actions in visit order -/

def strConsts : List Expr → Option (List Str)
  | [] => some []
  | .str s :: r => (strConsts r).map (s :: ·)
  | _ :: _ => none

mutual
  /-- expression in Load context -/
  def cExpr : Expr → List Op
    | .name n => [.load n]
    | .attr e a =>
      match (Expr.attr e a).dotted with
      | some ps => [.load (joinDots ps)]
      | none => cExpr e
    | .call f args => cExpr f ++ cExprs args
    | .const => []
    | .bool _ => []
    | .str _ => []
    | .binop l r => cExpr l ++ cExpr r
    | .lambda a body =>
      [.pushScope true false false] ++ cArgs a ++ [.enterFunc, .pushScope false false false] ++ cExpr body
        ++ [.popScope, .exitFunc, .popScope]
    | .comp _ elts gens => [.pushScope true false false] ++ cGens gens ++ cExprs elts ++ [.popScope]
    | .ifExp t a b => cExpr t ++ cExpr a ++ cExpr b
    | .tuple es => cExprs es
    | .list es => cExprs es
    | .subscript v i => cExpr v ++ cExpr i
  def cExprs : List Expr → List Op
    | [] => []
    | e :: es => cExpr e ++ cExprs es
  /-- expression in Store context (assignment / for / with / comprehension targets) -/
  def cTarget : Expr → List Op
    | .name n => [.store n]
    | .attr e a =>
      match (Expr.attr e a).dotted with
      | some ps => [.store (joinDots ps)]
      | none => cExpr e
    | .tuple es => cTargets es
    | .list es => cTargets es
    | .subscript v i => cExpr v ++ cExpr i
    | _ => []          -- not a valid assignment target in Python
  def cTargets : List Expr → List Op
    | [] => []
    | e :: es => cTarget e ++ cTargets es
  def cGens : List Gen → List Op
    | [] => []
    | .mk t it ifs :: gs => cExpr it ++ cTarget t ++ cExprs ifs ++ cGens gs
  def cOptExprs : List (Option Expr) → List Op
    | [] => []
    | none :: r => cOptExprs r
    | some e :: r => cExpr e ++ cOptExprs r
  /-- `visit_arg` for each parameter: annotation, then the name as a Store -/
  def cParams : List Param → List Op
    | [] => []
    | .mk n none :: ps => .store n :: cParams ps
    | .mk n (some ann) :: ps => cExpr ann ++ .store n :: cParams ps
  /-- `visit_arguments` -/
  def cArgs : Args → List Op
    | .mk args defaults vararg kwonly kwdefaults kwarg =>
      [.upScope] ++ cExprs defaults ++ cOptExprs kwdefaults ++ [.downScope]
        ++ cParams args ++ cParams kwonly
        ++ (match vararg with | some v => [.store v] | none => [])
        ++ (match kwarg with | some v => [.store v] | none => [])
end

/-- the targets are exactly one plain name -/
def singleName : List Expr → Option Str
  | [.name x] => some x
  | _ => none

/-- elements of a list / tuple display -/
def seqElts : Expr → Option (List Expr)
  | .list es => some es
  | .tuple es => some es
  | _ => none

/-- `_visit__all__`: `__all__ = [<string constants>]` (single Name target) treats the strings as deferred loads -/
def cAll (targets : List Expr) (v : Expr) : List Op :=
  match singleName targets, seqElts v with
  | some n, some es =>
    if n = "__all__".toList then (match strConsts es with | some ns => [.allNames ns] | none => []) else []
  | _, _ => []

def cOptExpr : Option Expr → List Op
  | none => []
  | some e => cExpr e

/-- `visit_alias` / `_visit_StoreImport`: for `import a.b.c` (no asname, not a star) store `a`, `a.b`, then the name. -/
def cAlias (_isFrom : Bool) (a : Alias) : List Op :=
  let name := a.asname.getD a.name
  let pre := if a.asname.isNone ∧ a.name ≠ ['*'] then ((prefixes (splitDots a.name)).dropLast).map (fun p => Op.store (joinDots p)) else []
  pre ++ [.store name]

def cWithItems : List WithItem → List Op
  | [] => []
  | w :: ws => cExpr w.ctx ++ (match w.target with | some t => cTarget t | none => []) ++ cWithItems ws

/-- decorators sit on the lines just above the `def` / `class` line -/
def cDecos (ln : Nat) : List Expr → List Op
  | [] => []
  | d :: ds => .setLine (ln - (ds.length + 1)) :: (cExpr d ++ cDecos ln ds)

def cDelTargets : List Expr → List Op
  | [] => []
  | .name n :: r => .delName n :: cDelTargets r
  | .attr e _ :: r => cExpr e ++ cDelTargets r
  | e :: r => cExpr e ++ cDelTargets r

mutual
  /-- statement starting on line `ln` -/
  def cStmt (ln : Nat) : Stmt → List Op
    | .expr e => cExpr e
    | .assign targets v =>
      cExpr v ++ cTargets targets ++ cAll targets v
    | .augAssign t v => cTarget t ++ cExpr v
    | .annAssign t ann v => cTarget t ++ cExpr ann ++ cOptExpr v
    | .import_ names => (names.map (cAlias false)).flatten
    | .importFrom _ names => (names.map (cAlias true)).flatten
    | .funcDef name a body decos returns =>
      [.pushScope true false false, .dunderClass] ++ cDecos ln decos ++ [.setLine ln] ++ cArgs a ++ cOptExpr returns
        ++ [.enterFunc, .pushScope false false true, .storeIfNotInClass name] ++ cStmts ln body
        ++ [.popScope, .exitFunc, .popScope, .store name]
    | .classDef name bases body decos =>
      cExprs bases ++ cDecos ln decos ++ [.classDelayed name, .pushScope false true false, .incClass, .store name]
        ++ cStmts ln body ++ [.decClass, .popScope, .removeMissing name, .store name]
    | .for_ t it body orelse => cTarget t ++ cExpr it ++ cStmts ln body ++ cStmts ln orelse
    | .while_ t body orelse => cExpr t ++ cStmts ln body ++ cStmts ln orelse
    | .if_ t body orelse => cExpr t ++ cStmts ln body ++ cStmts ln orelse
    | .with_ items body => cWithItems items ++ cStmts ln body
    | .try_ body hs orelse final => cStmts ln body ++ cHandlers ln hs ++ cStmts ln orelse ++ cStmts ln final
    | .return_ e => cOptExpr e
    | .pass => []
    | .raise_ e => cExpr e
    | .delete targets => cDelTargets targets
    | .global_ _ => []
    | .nonlocal_ _ => []
    | .located l s => .setLine l :: cStmt l s
  def cStmts (ln : Nat) : List Stmt → List Op
    | [] => []
    | s :: ss => cStmt ln s ++ cStmts ln ss
  def cHandlers (ln : Nat) : List Handler → List Op
    | [] => []
    | .mk l type name body :: hs =>
      .setLine l :: (cOptExpr type ++ (match name with | some n => [.store n] | none => []) ++ cStmts l body) ++ cHandlers ln hs
end

/-! ### visitor state and `step` -/

structure Missing where
  line : Nat
  name : Str
  /-- `isinstance(scope_info['scopestack'][-1], _ClassScope)` -/
  topIsClass : Bool
  /-- `scope_info['_in_class_def']` is truthy -/
  inClass : Bool
  deriving DecidableEq, Repr

structure Deferred where
  name : Str
  ids : List Nat
  line : Nat
  deriving DecidableEq, Repr

structure AState where
  heap : Heap
  stack : StackRef
  saved : List StackRef := []
  inFunc : Bool := false
  savedFunc : List Bool := []
  inClass : Nat := 0
  line : Nat := 0
  missing : List Missing := []
  deferred : List Deferred := []
  log : List Effect := []
  deriving Repr

def AState.emit (st : AState) (es : List Effect) : AState := { st with log := st.log ++ es }

def AState.topIsClass (st : AState) : Bool := (st.heap.get st.stack.top).isClass

/-- `_check_load(fullname, scopestack, lineno)` -/
def checkLoad (reg : Registry) (st : AState) (name : Str) (ids : List Nat) (line : Nat) : AState :=
  let r := symbolNeedsImport reg st.heap ids name
  let st := st.emit r.2
  if r.1 && !(hasStar st.heap ids) then
    if st.missing.any (fun m => m.line = line ∧ m.name = name) then st
    else { st with missing := st.missing ++ [⟨line, name, st.topIsClass, st.inClass ≠ 0⟩] }
  else st

/-- `_visit_Store(fullname)` in this mode: `scope[fullname] = None` on the top scope -/
def storeTop (st : AState) (name : Str) : AState :=
  let i := st.stack.top
  { st with heap := st.heap.update i (·.set name .none), log := st.log ++ [.nsWrite i name] }

/-- one `_visit_Load_defered` -/
def deferLoad (reg : Registry) (st : AState) (name : Str) : AState :=
  let r := symbolNeedsImport reg st.heap st.stack.ids name
  let st := st.emit r.2
  if r.1 then
    -- clone_top: copy the top dict into a fresh heap cell, alias the others
    let newId := st.heap.length
    let ids := normIds (st.stack.ids.dropLast ++ [newId])
    { st with heap := st.heap ++ [st.heap.get st.stack.top], deferred := st.deferred ++ [⟨name, ids, st.line⟩] }
  else st

/-- DottedIdentifier(name).startswith(pre) -/
def dottedStartsWith (name pre : Str) : Bool := (splitDots pre).isPrefixOf (splitDots name)

/-- `for m in self.missing_imports: if cond(m): self.missing_imports.remove(m)` — the list is mutated while it is
    iterated, so the element following a removed one is skipped. -/
def removeLoop (cond : Missing → Bool) : Nat → Nat → List Missing → List Missing
  | 0, _, l => l
  | fuel + 1, i, l =>
    match l[i]? with
    | none => l
    | some m => if cond m then removeLoop cond fuel (i + 1) (l.eraseIdx i) else removeLoop cond fuel (i + 1) l

/-- `_visit_Load_defered_global`: deferred with the *uncloned* current stack -/
def deferGlobal (reg : Registry) (st : AState) (name : Str) : AState :=
  let r := symbolNeedsImport reg st.heap st.stack.ids name
  let st := st.emit r.2
  if r.1 then { st with deferred := st.deferred ++ [⟨name, st.stack.ids, st.line⟩] } else st

def step (reg : Registry) (st : AState) : Op → AState
  | .setLine n => { st with line := n }
  | .load name =>
    if st.inFunc then deferLoad reg (deferLoad reg st name) name      -- `_visit_Load_defered` is called twice
    else checkLoad reg st name st.stack.ids st.line
  | .store name => storeTop st name
  | .pushScope includeClass newClass unhide =>
    let newId := st.heap.length
    let ns := st.stack.withNewScope st.heap includeClass unhide newId
    { st with heap := st.heap ++ [{ isClass := newClass }], saved := st.stack :: st.saved, stack := ns }
  | .popScope =>
    let st := st.emit ((st.heap.get st.stack.top).items.map (fun kv => Effect.truth kv.2))
    match st.saved with
    | [] => st
    | s :: r => { st with stack := s, saved := r }
  | .upScope => { st with saved := st.stack :: st.saved, stack := st.stack.up }
  | .downScope =>
    match st.saved with
    | [] => st
    | s :: r => { st with stack := s, saved := r }
  | .enterFunc => { st with savedFunc := st.inFunc :: st.savedFunc, inFunc := true }
  | .exitFunc =>
    match st.savedFunc with
    | [] => st
    | b :: r => { st with inFunc := b, savedFunc := r }
  | .classDelayed name =>
    if st.inClass = 0 ∧ st.stack.sharedDelayed then
      { st with heap := st.heap.update delayedId (·.set name .none), log := st.log ++ [.nsWrite delayedId name] }
    else st
  | .incClass => { st with inClass := st.inClass + 1 }
  | .decClass => { st with inClass := st.inClass - 1 }
  | .removeMissing name =>
    { st with missing := removeLoop (fun m => dottedStartsWith m.name name && (m.topIsClass || !m.inClass))
                                   st.missing.length 0 st.missing }
  | .dunderClass => if st.inClass ≠ 0 then storeTop st "__class__".toList else st
  | .storeIfNotInClass name => if st.inClass = 0 then storeTop st name else st
  | .allNames names =>
    if st.inFunc then st else names.foldl (deferGlobal reg) st
  | .delName name =>
    let i := st.stack.top
    if ((st.heap.get i).get name).isSome then
      { st with heap := st.heap.update i (·.del name), log := st.log ++ [.nsDel i name] }
    else st

def runOps (reg : Registry) (st : AState) (ops : List Op) : AState := ops.foldl (step reg) st

/-- `_finish_deferred_load_checks` -/
def finishDeferred (reg : Registry) (st : AState) : AState :=
  let st' := st.deferred.foldl (fun st d => checkLoad reg st d.name d.ids d.line) st
  { st' with deferred := [] }

/-! ### entry points -/

/-- insertion sort by `Pfb.strLt`, duplicates dropped: `sorted(set(names))` -/
def insertSorted (x : Str) : List Str → List Str
  | [] => [x]
  | y :: ys => if x = y then y :: ys else if strLt x y then x :: y :: ys else y :: insertSorted x ys

def sortedSet (l : List Str) : List Str := l.foldr insertSorted []

/-- The heap `find_missing_imports` starts from: 0 = builtins, 1 = `_builtins2`, 2 = `_class_delayed`,
    3 … 3+k-1 = the caller's namespaces (most global first), 3+k = the private top scope of `__init__`. -/
def initState (builtins : Scope) (userNs : List Scope) : AState :=
  let heap : Heap := [builtins, { items := [("__file__".toList, .none)] }, ({} : Scope)] ++ userNs ++ [({} : Scope)]
  let user := (List.range userNs.length).map (· + 3)
  -- `ScopeStack(namespaces)._with_new_scope(include_class_scopes=False, …)`
  let ids := normIds ((normIds user).filter (fun i => !(heap.get i).isClass) ++ [3 + userNs.length])
  { heap := heap, stack := { ids := ids } }

def analyze (reg : Registry) (builtins : Scope) (userNs : List Scope) (prog : List Stmt) : AState :=
  finishDeferred reg (runOps reg (initState builtins userNs) (cStmts 0 prog))

/-- `find_missing_imports(source, namespaces)` for a multi-statement source -/
def findMissing (reg : Registry) (builtins : Scope) (userNs : List Scope) (prog : List Stmt) : List Str :=
  sortedSet ((analyze reg builtins userNs prog).missing.map (·.name))

end Pfb.PyCore
