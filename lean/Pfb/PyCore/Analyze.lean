/-
  Pfb.PyCore.Analyze — model of `_MissingImportFinder` in `find_missing_imports` mode
  (`find_unused_imports=False`, `parse_docstrings=False`), lib/python/pyflyby/_autoimp.py:371-1125.

  The visitor's control flow does not depend on its state except through a few flags, so the model is split in
  two: `compile` turns the AST into the exact sequence of primitive visitor actions (`Op`) in visit order, and
  `step` executes one action on the visitor state.  `findMissing` = run all actions, finish the deferred load
  checks, `sorted(set(...))`.
-/
import Pfb.PyCore.Scope
namespace Pfb.PyCore

inductive Op
  | setLine (n : Nat)                      -- `self._lineno = node.lineno`
  | load (fullname : Str)                  -- `_visit_Load`
  | store (fullname : Str)                 -- `_visit_Store(fullname)` (value None)
  | pushScope (includeClass newClass unhide : Bool)   -- enter `_NewScopeCtx`
  | popScope                               -- leave `_NewScopeCtx`
  | upScope | downScope                    -- `_UpScopeCtx`
  | enterFunc | exitFunc                   -- save/set/restore `_in_FunctionDef`
  /-- `if self._in_class_def == 0 [and not self._in_FunctionDef]: scopestack._class_delayed[name] = None`
      (`modOnly`: the bracketed condition is present) -/
  | classDelayed (name : Str) (modOnly : Bool)
  | incClass | decClass
  /-- `_remove_from_missing_imports` (`modOnly`: only for a class at module level) -/
  | removeMissing (name : Str) (modOnly : Bool)
  | dunderClass                            -- `if self._in_class_def: scopestack[-1]["__class__"] = None`
  | storeIfNotInClass (name : Str)         -- `if not self._in_class_def: self._visit_Store(name)`
  | allNames (names : List Str)            -- `_visit__all__` on a list/tuple of string constants
  /-- `visit_Delete`, Name target (`deep`: the dotted keys below the name go too); also the unbinding of `except … as n` -/
  | delName (name : Str) (deep : Bool)
  /-- `visit_alias` / `_visit_StoreImport` for one alias: `_visit_Store(key, value)` for every key (the leading prefixes
      of `import a.b.c`, then the bound name), all with the same value; `bind` = `asname or name`, `idx` = position of the
      alias in its statement, `plain` = star import or `from __future__` (no `_UseChecker` even in unused-import mode) -/
  | importAlias (keys : List Str) (bind : Str) (idx : Nat) (plain : Bool)
  /-- entering / leaving a statement whose parts may not run (`_conditional_depth`; only matters in unused-import mode) -/
  | condEnter | condExit
  /-- end of `except E as n` (c9ece75): `scope.pop(n, None)`, the keys `n.…` go too; in unused-import mode the checkers
      shadowed by the popped value are marked used -/
  | handlerEnd (name : Str)
  deriving DecidableEq, Repr

/-! ### compile: AST → visitor actions in visit order -/

/-- Which of the proposed repairs (fixes/C05-D9*.diff) the analysed code carries.  All `false` = the unchanged tree.
    The harness probes the real code for each flag, so the correspondence check follows the code as it is. -/
structure Fixes where
  /-- (b) `except … as e`: the name is unbound again after the handler body -/
  exceptUnbind : Bool := false
  /-- (c) `x += v` loads `x` (and visits the value) before storing it -/
  augLoad : Bool := false
  /-- (f) `for t in it`: the iterable is visited before the target -/
  forIterFirst : Bool := false
  /-- (g) `t: ann = v`: value, then target (only when there is a value), then annotation -/
  annValueFirst : Bool := false
  /-- (a) comprehensions: first iterable in the enclosing scope, the rest in a scope that hides class scopes -/
  compScope : Bool := false
  /-- parameter annotations are visited in the enclosing scope, before any parameter is stored -/
  paramAnnOuter : Bool := false
  /-- unused-import mode only: a name of `__all__` that is bound is also looked up again at the end of the module
      (`_deferred_use_marks`) -/
  allUseMark : Bool := false
  /-- `del foo` also removes the keys `foo.…` stored by `import foo.bar` -/
  delDotted : Bool := false
  /-- a21b6de / c9ece75: `_conditional_depth` is counted for `if`/`for`/`while`/`try` (a store there shadows, rather than
      replaces, the unused imports it overwrites), and the end of `except … as n` also drops the keys `n.…` -/
  condStore : Bool := false
  /-- 0e29f32 (unused-import mode): a name read by a function body seen so far is not reported as rebound-without-use -/
  deferredNames : Bool := false
  /-- a class inside a function (or another class) neither goes to `_class_delayed` nor removes names from the missing list -/
  classModuleOnly : Bool := false
  /-- 931d7c0: the return annotation of a `def` is visited in the enclosing scope (`_UpScopeCtx`) -/
  returnsOuter : Bool := false
  deriving DecidableEq, Repr, Inhabited

def strConsts : List Expr → Option (List Str)
  | [] => some []
  | .str s :: r => (strConsts r).map (s :: ·)
  | _ :: _ => none

mutual
  /-- expression in Load context -/
  def cExpr (fx : Fixes) : Expr → List Op
    | .name n => [.load n]
    | .attr e a =>
      match (Expr.attr e a).dotted with
      | some ps => [.load (joinDots ps)]
      | none => cExpr fx e
    | .call f args => cExpr fx f ++ cExprs fx args
    | .const => []
    | .bool _ => []
    | .str _ => []
    | .binop l r => cExpr fx l ++ cExpr fx r
    | .lambda a body =>
      [.pushScope true false false] ++ cArgs fx a ++ [.enterFunc, .pushScope false false false] ++ cExpr fx body
        ++ [.popScope, .exitFunc, .popScope]
    | .comp _ elts gens =>
      if fx.compScope then
        match gens with
        | .mk t it ifs :: gs =>
          cExpr fx it ++ [.pushScope false false false] ++ cTarget fx t ++ cExprs fx ifs ++ cGens fx gs ++ cExprs fx elts ++ [.popScope]
        | [] => [.pushScope true false false] ++ cExprs fx elts ++ [.popScope]
      else [.pushScope true false false] ++ cGens fx gens ++ cExprs fx elts ++ [.popScope]
    | .ifExp t a b => cExpr fx t ++ cExpr fx a ++ cExpr fx b
    | .tuple es => cExprs fx es
    | .list es => cExprs fx es
    | .subscript v i => cExpr fx v ++ cExpr fx i
  def cExprs (fx : Fixes) : List Expr → List Op
    | [] => []
    | e :: es => cExpr fx e ++ cExprs fx es
  /-- expression in Store context (assignment / for / with / comprehension targets) -/
  def cTarget (fx : Fixes) : Expr → List Op
    | .name n => [.store n]
    | .attr e a =>
      match (Expr.attr e a).dotted with
      | some ps => [.store (joinDots ps)]
      | none => cExpr fx e
    | .tuple es => cTargets fx es
    | .list es => cTargets fx es
    | .subscript v i => cExpr fx v ++ cExpr fx i
    | _ => []          -- not a valid assignment target in Python
  def cTargets (fx : Fixes) : List Expr → List Op
    | [] => []
    | e :: es => cTarget fx e ++ cTargets fx es
  def cGens (fx : Fixes) : List Gen → List Op
    | [] => []
    | .mk t it ifs :: gs => cExpr fx it ++ cTarget fx t ++ cExprs fx ifs ++ cGens fx gs
  def cOptExprs (fx : Fixes) : List (Option Expr) → List Op
    | [] => []
    | none :: r => cOptExprs fx r
    | some e :: r => cExpr fx e ++ cOptExprs fx r
  /-- `visit_arg` for each parameter: annotation (unless `paramAnnOuter`), then the name as a Store -/
  def cParams (fx : Fixes) : List Param → List Op
    | [] => []
    | .mk n none :: ps => .store n :: cParams fx ps
    | .mk n (some ann) :: ps => (if fx.paramAnnOuter then [] else cExpr fx ann) ++ .store n :: cParams fx ps
  /-- the annotations of the parameters, in order -/
  def cParamAnns (fx : Fixes) : List Param → List Op
    | [] => []
    | .mk _ none :: ps => cParamAnns fx ps
    | .mk _ (some ann) :: ps => cExpr fx ann ++ cParamAnns fx ps
  /-- `visit_arguments` -/
  def cArgs (fx : Fixes) : Args → List Op
    | .mk args defaults vararg kwonly kwdefaults kwarg =>
      [.upScope] ++ cExprs fx defaults ++ cOptExprs fx kwdefaults
        ++ (if fx.paramAnnOuter then cParamAnns fx args ++ cParamAnns fx kwonly else []) ++ [.downScope]
        ++ cParams fx args ++ cParams fx kwonly
        ++ (match vararg with | some v => [.store v] | none => [])
        ++ (match kwarg with | some v => [.store v] | none => [])
end

/-- the targets are exactly one plain name -/
def singleName : List Expr → Option Str
  | [.name x] => some x
  | _ => none

/-- elements of a list / tuple display -/
def seqElts : Expr → Option (List Expr)
  | .list es => some es
  | .tuple es => some es
  | _ => none

/-- `_visit__all__`: `__all__ = [<string constants>]` (single Name target) treats the strings as deferred loads -/
def cAll (targets : List Expr) (v : Expr) : List Op :=
  match singleName targets, seqElts v with
  | some n, some es =>
    if n = "__all__".toList then (match strConsts es with | some ns => [.allNames ns] | none => []) else []
  | _, _ => []

def cOptExpr (fx : Fixes) : Option Expr → List Op
  | none => []
  | some e => cExpr fx e

/-- the return annotation of a `def` -/
def cRet (fx : Fixes) : Option Expr → List Op
  | none => []
  | some r => if fx.returnsOuter then .upScope :: (cExpr fx r ++ [.downScope]) else cExpr fx r

/-- `visit_alias` / `_visit_StoreImport`: for `import a.b.c` (no asname, not a star) the keys are `a`, `a.b`, then the name. -/
def cAlias (modulename : Option Str) (idx : Nat) (a : Alias) : Op :=
  let name := a.asname.getD a.name
  let pre := if a.asname.isNone ∧ a.name ≠ ['*'] then ((prefixes (splitDots a.name)).dropLast).map joinDots else []
  .importAlias (pre ++ [name]) name idx (a.name = ['*'] ∨ modulename = some "__future__".toList)

def cAliases (modulename : Option Str) : Nat → List Alias → List Op
  | _, [] => []
  | idx, a :: r => cAlias modulename idx a :: cAliases modulename (idx + 1) r

def cWithItems (fx : Fixes) : List WithItem → List Op
  | [] => []
  | w :: ws => cExpr fx w.ctx ++ (match w.target with | some t => cTarget fx t | none => []) ++ cWithItems fx ws

/-- decorators sit on the lines just above the `def` / `class` line -/
def cDecos (fx : Fixes) (ln : Nat) : List Expr → List Op
  | [] => []
  | d :: ds => .setLine (ln - (ds.length + 1)) :: (cExpr fx d ++ cDecos fx ln ds)

def cDelTargets (fx : Fixes) : List Expr → List Op
  | [] => []
  | .name n :: r => .delName n fx.delDotted :: cDelTargets fx r
  | .attr e _ :: r => cExpr fx e ++ cDelTargets fx r
  | e :: r => cExpr fx e ++ cDelTargets fx r

/-- fix (c): the Load of an augmented-assignment target, visited before the value -/
def cAugLoad (fx : Fixes) : Expr → List Op
  | .name n => [.load n]
  | .attr e a =>
    match (Expr.attr e a).dotted with
    | some ps => [.load (joinDots ps)]
    | none => cExpr fx e
  | _ => []

/-- fix (g): `t: ann` without a value only evaluates the sub-expressions of a non-Name target -/
def cAnnBare (fx : Fixes) : Expr → List Op
  | .attr e _ => cExpr fx e
  | .subscript v i => cExpr fx v ++ cExpr fx i
  | _ => []

mutual
  /-- statement starting on line `ln` -/
  def cStmt (fx : Fixes) (ln : Nat) : Stmt → List Op
    | .expr e => cExpr fx e
    | .assign targets v =>
      cExpr fx v ++ cTargets fx targets ++ cAll targets v
    | .augAssign t v =>
      if fx.augLoad then cAugLoad fx t ++ cExpr fx v ++ cTarget fx t else cTarget fx t ++ cExpr fx v
    | .annAssign t ann v =>
      if fx.annValueFirst then
        (match v with | some e => cExpr fx e ++ cTarget fx t | none => cAnnBare fx t) ++ cExpr fx ann
      else cTarget fx t ++ cExpr fx ann ++ cOptExpr fx v
    | .import_ names => cAliases none 0 names
    | .importFrom m names => cAliases (some m) 0 names
    | .funcDef name a body decos returns =>
      [.pushScope true false false, .dunderClass] ++ cDecos fx ln decos ++ [.setLine ln] ++ cArgs fx a ++ cRet fx returns
        ++ [.enterFunc, .pushScope false false true, .storeIfNotInClass name] ++ cStmts fx ln body
        ++ [.popScope, .exitFunc, .popScope, .store name]
    | .classDef name bases body decos =>
      cExprs fx bases ++ cDecos fx ln decos ++ [.classDelayed name fx.classModuleOnly, .pushScope false true false, .incClass, .store name]
        ++ cStmts fx ln body ++ [.decClass, .popScope, .removeMissing name fx.classModuleOnly, .store name]
    | .for_ t it body orelse =>
      (if fx.condStore then [.condEnter] else []) ++
      ((if fx.forIterFirst then cExpr fx it ++ cTarget fx t else cTarget fx t ++ cExpr fx it)
        ++ cStmts fx ln body ++ cStmts fx ln orelse) ++ (if fx.condStore then [.condExit] else [])
    | .while_ t body orelse =>
      (if fx.condStore then [.condEnter] else []) ++ (cExpr fx t ++ cStmts fx ln body ++ cStmts fx ln orelse)
        ++ (if fx.condStore then [.condExit] else [])
    | .if_ t body orelse =>
      (if fx.condStore then [.condEnter] else []) ++ (cExpr fx t ++ cStmts fx ln body ++ cStmts fx ln orelse)
        ++ (if fx.condStore then [.condExit] else [])
    | .with_ items body => cWithItems fx items ++ cStmts fx ln body
    | .try_ body hs orelse final =>
      (if fx.condStore then [.condEnter] else []) ++
      (cStmts fx ln body ++ cHandlers fx ln hs ++ cStmts fx ln orelse ++ cStmts fx ln final)
        ++ (if fx.condStore then [.condExit] else [])
    | .return_ e => cOptExpr fx e
    | .pass => []
    | .raise_ e => cExpr fx e
    | .delete targets => cDelTargets fx targets
    | .global_ _ => []
    | .nonlocal_ _ => []
    | .located l s => .setLine l :: cStmt fx l s
  def cStmts (fx : Fixes) (ln : Nat) : List Stmt → List Op
    | [] => []
    | s :: ss => cStmt fx ln s ++ cStmts fx ln ss
  def cHandlers (fx : Fixes) (ln : Nat) : List Handler → List Op
    | [] => []
    | .mk l type name body :: hs =>
      .setLine l :: (cOptExpr fx type
          ++ (match name with | some n => [.store n] | none => [])
          ++ cStmts fx l body
          ++ (match name with
              | some n => if fx.exceptUnbind then (if fx.condStore then [.handlerEnd n] else [.delName n false]) else []
              | none => []))
        ++ cHandlers fx ln hs
end

/-! ### visitor state and `step` -/

structure Missing where
  line : Nat
  name : Str
  /-- `isinstance(scope_info['scopestack'][-1], _ClassScope)` -/
  topIsClass : Bool
  /-- `scope_info['_in_class_def']` is truthy -/
  inClass : Bool
  deriving DecidableEq, Repr

structure Deferred where
  name : Str
  ids : List Nat
  line : Nat
  deriving DecidableEq, Repr

structure AState where
  heap : Heap
  stack : StackRef
  saved : List StackRef := []
  inFunc : Bool := false
  savedFunc : List Bool := []
  inClass : Nat := 0
  line : Nat := 0
  missing : List Missing := []
  deferred : List Deferred := []
  log : List Effect := []
  deriving Repr

def AState.emit (st : AState) (es : List Effect) : AState := { st with log := st.log ++ es }

def AState.topIsClass (st : AState) : Bool := (st.heap.get st.stack.top).isClass

/-- `_check_load(fullname, scopestack, lineno)` -/
def checkLoad (reg : Registry) (st : AState) (name : Str) (ids : List Nat) (line : Nat) : AState :=
  let r := symbolNeedsImport reg st.heap ids name
  let st := st.emit r.2
  if r.1 && !(hasStar st.heap ids) then
    if st.missing.any (fun m => m.line = line ∧ m.name = name) then st
    else { st with missing := st.missing ++ [⟨line, name, st.topIsClass, st.inClass ≠ 0⟩] }
  else st

/-- `_visit_Store(fullname)` in this mode: `scope[fullname] = None` on the top scope -/
def storeTop (st : AState) (name : Str) : AState :=
  let i := st.stack.top
  { st with heap := st.heap.update i (·.set name .none), log := st.log ++ [.nsWrite i name] }

/-- one `_visit_Load_defered` -/
def deferLoad (reg : Registry) (st : AState) (name : Str) : AState :=
  let r := symbolNeedsImport reg st.heap st.stack.ids name
  let st := st.emit r.2
  if r.1 then
    -- clone_top: copy the top dict into a fresh heap cell, alias the others
    let newId := st.heap.length
    let ids := normIds (st.stack.ids.dropLast ++ [newId])
    { st with heap := st.heap ++ [st.heap.get st.stack.top], deferred := st.deferred ++ [⟨name, ids, st.line⟩] }
  else st

/-- DottedIdentifier(name).startswith(pre) -/
def dottedStartsWith (name pre : Str) : Bool := (splitDots pre).isPrefixOf (splitDots name)

/-- `for m in self.missing_imports: if cond(m): self.missing_imports.remove(m)` — the list is mutated while it is
    iterated, so the element following a removed one is skipped. -/
def removeLoop (cond : Missing → Bool) : Nat → Nat → List Missing → List Missing
  | 0, _, l => l
  | fuel + 1, i, l =>
    match l[i]? with
    | none => l
    | some m => if cond m then removeLoop cond fuel (i + 1) (l.eraseIdx i) else removeLoop cond fuel (i + 1) l

/-- `_visit_Load_defered_global`: deferred with the *uncloned* current stack -/
def deferGlobal (reg : Registry) (st : AState) (name : Str) : AState :=
  let r := symbolNeedsImport reg st.heap st.stack.ids name
  let st := st.emit r.2
  if r.1 then { st with deferred := st.deferred ++ [⟨name, st.stack.ids, st.line⟩] } else st

def step (reg : Registry) (st : AState) : Op → AState
  | .setLine n => { st with line := n }
  | .load name =>
    if st.inFunc then deferLoad reg (deferLoad reg st name) name      -- `_visit_Load_defered` is called twice
    else checkLoad reg st name st.stack.ids st.line
  | .store name => storeTop st name
  | .pushScope includeClass newClass unhide =>
    let newId := st.heap.length
    let ns := st.stack.withNewScope st.heap includeClass unhide newId
    { st with heap := st.heap ++ [{ isClass := newClass }], saved := st.stack :: st.saved, stack := ns }
  | .popScope =>
    let st := st.emit ((st.heap.get st.stack.top).items.map (fun kv => Effect.truth kv.2))
    match st.saved with
    | [] => st
    | s :: r => { st with stack := s, saved := r }
  | .upScope => { st with saved := st.stack :: st.saved, stack := st.stack.up }
  | .downScope =>
    match st.saved with
    | [] => st
    | s :: r => { st with stack := s, saved := r }
  | .enterFunc => { st with savedFunc := st.inFunc :: st.savedFunc, inFunc := true }
  | .exitFunc =>
    match st.savedFunc with
    | [] => st
    | b :: r => { st with inFunc := b, savedFunc := r }
  | .classDelayed name modOnly =>
    if st.inClass = 0 ∧ (modOnly = true → st.inFunc = false) ∧ st.stack.sharedDelayed then
      { st with heap := st.heap.update delayedId (·.set name .none), log := st.log ++ [.nsWrite delayedId name] }
    else st
  | .incClass => { st with inClass := st.inClass + 1 }
  | .decClass => { st with inClass := st.inClass - 1 }
  | .removeMissing name modOnly =>
    if modOnly = true ∧ ¬ (st.inClass = 0 ∧ st.inFunc = false) then st
    else
      { st with missing := removeLoop (fun m => dottedStartsWith m.name name && (m.topIsClass || !m.inClass))
                                     st.missing.length 0 st.missing }
  | .dunderClass => if st.inClass ≠ 0 then storeTop st "__class__".toList else st
  | .storeIfNotInClass name => if st.inClass = 0 then storeTop st name else st
  | .allNames names =>
    if st.inFunc then st else names.foldl (deferGlobal reg) st
  | .importAlias keys _ _ _ => keys.foldl storeTop st
  | .condEnter => st
  | .condExit => st
  | .handlerEnd name =>
    let i := st.stack.top
    let st1 : AState :=
      if ((st.heap.get i).get name).isSome then
        { st with heap := st.heap.update i (·.del name), log := st.log ++ [.nsDel i name] }
      else st
    { st1 with heap := st1.heap.update i (·.delBelow name),
               log := st1.log ++ ((st1.heap.get i).dottedBelow name).map (Effect.nsDel i) }
  | .delName name deep =>
    let i := st.stack.top
    if ((st.heap.get i).get name).isSome then
      let st1 : AState := { st with heap := st.heap.update i (·.del name), log := st.log ++ [.nsDel i name] }
      if deep then
        { st1 with heap := st1.heap.update i (·.delBelow name),
                   log := st1.log ++ ((st1.heap.get i).dottedBelow name).map (Effect.nsDel i) }
      else st1
    else st

def runOps (reg : Registry) (st : AState) (ops : List Op) : AState := ops.foldl (step reg) st

/-- `_finish_deferred_load_checks` -/
def finishDeferred (reg : Registry) (st : AState) : AState :=
  let st' := st.deferred.foldl (fun st d => checkLoad reg st d.name d.ids d.line) st
  { st' with deferred := [] }

/-! ### entry points -/

/-- insertion sort by `Pfb.strLt`, duplicates dropped: `sorted(set(names))` -/
def insertSorted (x : Str) : List Str → List Str
  | [] => [x]
  | y :: ys => if x = y then y :: ys else if strLt x y then x :: y :: ys else y :: insertSorted x ys

def sortedSet (l : List Str) : List Str := l.foldr insertSorted []

/-- The heap `find_missing_imports` starts from: 0 = builtins, 1 = `_builtins2`, 2 = `_class_delayed`,
    3 … 3+k-1 = the caller's namespaces (most global first), 3+k = the private top scope of `__init__`. -/
def initState (builtins : Scope) (userNs : List Scope) : AState :=
  let heap : Heap := [builtins, { items := [("__file__".toList, .none)] }, ({} : Scope)] ++ userNs ++ [({} : Scope)]
  let user := (List.range userNs.length).map (· + 3)
  -- `ScopeStack(namespaces)._with_new_scope(include_class_scopes=False, …)`
  let ids := normIds ((normIds user).filter (fun i => !(heap.get i).isClass) ++ [3 + userNs.length])
  { heap := heap, stack := { ids := ids } }

/-- the analysis of the code carrying the repairs `fx` -/
def analyzeFx (fx : Fixes) (reg : Registry) (builtins : Scope) (userNs : List Scope) (prog : List Stmt) : AState :=
  finishDeferred reg (runOps reg (initState builtins userNs) (cStmts fx 0 prog))

/-- the analysis of the unchanged tree -/
def analyze (reg : Registry) (builtins : Scope) (userNs : List Scope) (prog : List Stmt) : AState :=
  analyzeFx {} reg builtins userNs prog

/-- `find_missing_imports(source, namespaces)` for a multi-statement source -/
def findMissingFx (fx : Fixes) (reg : Registry) (builtins : Scope) (userNs : List Scope) (prog : List Stmt) : List Str :=
  sortedSet ((analyzeFx fx reg builtins userNs prog).missing.map (·.name))

def findMissing (reg : Registry) (builtins : Scope) (userNs : List Scope) (prog : List Stmt) : List Str :=
  findMissingFx {} reg builtins userNs prog

end Pfb.PyCore
