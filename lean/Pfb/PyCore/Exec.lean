/-
  Pfb.PyCore.Exec — fuel-indexed reference semantics of *name binding and lookup* for the mini-Python of
  `Pfb.PyCore.Syntax`, modelled on CPython 3.12 (validated against it by the C05 correspondence check, not derived
  from it).

  Values are almost opaque: `opq` is the universal dummy of the harness (every operation succeeds and yields `opq`),
  `rigid` a value on which every operation fails (builtin functions, exception/class instances, strings), plus
  what control flow and name resolution need: `none`, booleans, sequences (for iteration counts / unpacking),
  function closures, classes, modules of the synthetic import universe.

  Scoping: LEGB with compile-time locals (every name bound anywhere in a function body is local to it; reading it
  before it is bound is an UnboundLocalError), cells shared between a function and its closures, class bodies whose
  names are invisible to nested functions and comprehensions, comprehension scopes with the first iterable evaluated
  outside, `except … as e` unbinding, imports over an abstract universe (`pa`, `pb` packages; sub-packages `s<digits>`;
  members `m1`, `m2`).  Exceptions propagate and can be caught by the program's own handlers.
-/
import Pfb.PyCore.Scope
namespace Pfb.PyCore

inductive RVal
  | opq | rigid | none
  | bool (b : Bool)
  | seq (vs : List RVal)
  | func (id : Nat)
  | cls (id : Nat)
  | mod (id : Nat)
  deriving Repr, Inhabited

inductive Exc
  | nameError (n : Str)       -- global name lookup failed
  | localError (n : Str)      -- UnboundLocalError / "cannot access free variable"
  | attrError (dotted : Str)  -- missing attribute on a module of the universe that is its registry entry
  | user                      -- `raise Exception`
  | other                     -- any other exception (TypeError, ValueError, ImportError, AttributeError on a non-module …)
  | fuel                      -- the model ran out of fuel (not a Python exception; never caught)
  deriving DecidableEq, Repr

inductive Flow
  | normal
  | ret (v : RVal)
  deriving Repr

abbrev Frame := List (Str × Nat)      -- local name ↦ cell id

inductive FBody
  | stmts (b : List Stmt)
  | expr (e : Expr)

structure Closure where
  params : List Str
  ndefaults : Nat := 0
  defaults : List RVal := []             -- values of the trailing `ndefaults` positional parameters
  vararg : Option Str := none
  kwonly : List (Str × Option RVal) := []
  kwarg : Option Str := none
  locals : List Str                      -- compile-time locals (parameters included)
  body : FBody
  env : List Frame                       -- frames of the lexically enclosing *functions*, innermost first

inductive ScopeK
  | module
  | func
  | cls (locals : List Str)              -- names bound somewhere in this class body

structure Ctx where
  kind : ScopeK := .module
  frames : List Frame := []              -- func: own frame first; otherwise the enclosing function frames

structure ModObj where
  name : Str
  attrs : List (Str × RVal) := []
  registry : Bool := true                -- is this object `sys.modules[name]`

structure XState where
  globals : List (Str × RVal) := []
  builtins : List Str := []
  cells : List (Option RVal) := []
  funcs : List Closure := []
  classes : List (List (Str × RVal)) := []
  clsStack : List (List (Str × RVal)) := []   -- namespaces of the class bodies being executed, innermost first
  mods : List ModObj := []
  loaded : List (Str × Nat) := []              -- sys.modules of the universe: dotted ↦ module id
  ne : List Str := []                          -- global names whose lookup raised NameError, first-raise order
  ae : List Str := []                          -- `module.attr` lookups that raised AttributeError
  lne : List Str := []                         -- local/free names that raised
  line : Nat := 0                              -- line of the innermost `located` statement being executed
  origins : List (Str × Nat × Nat) := []       -- global name ↦ (line, alias index) of the import statement whose
                                               -- execution created its current binding (absent: not bound by an import)
  usedImps : List (Nat × Nat) := []            -- origins of the global bindings that successful reads resolved to
  atEnd : Bool := false                        -- module level has reached the calls after the last statement
  early : Bool := false                        -- a function / lambda ran before that point
  otherRaised : Bool := false

def X (α : Type) := XState → XState × Except Exc α

instance : Monad X where
  pure a := fun s => (s, .ok a)
  bind m f := fun s => match m s with
    | (s', .ok a) => f a s'
    | (s', .error e) => (s', .error e)

def X.throw {α} (e : Exc) : X α := fun s => (s, .error e)
def X.get : X XState := fun s => (s, .ok s)
def X.modify (f : XState → XState) : X Unit := fun s => (f s, .ok ())
/-- run `m`; hand its exception (if any) to the continuation instead of propagating -/
def X.attempt {α} (m : X α) : X (Except Exc α) := fun s => match m s with
  | (s', r) => (s', .ok r)

def addOnce (n : Str) (l : List Str) : List Str := if l.contains n then l else l ++ [n]

def raiseName {α} (n : Str) : X α := fun s => ({ s with ne := addOnce n s.ne }, .error (.nameError n))
def raiseLocal {α} (n : Str) : X α := fun s => ({ s with lne := addOnce n s.lne }, .error (.localError n))
def raiseAttr {α} (d : Str) : X α := fun s => ({ s with ae := addOnce d s.ae }, .error (.attrError d))
def raiseOther {α} : X α := fun s => ({ s with otherRaised := true }, .error .other)

/-! ### compile-time facts -/

mutual
  def targetNames : Expr → List Str
    | .name n => [n]
    | .tuple es => targetsNames es
    | .list es => targetsNames es
    | _ => []
  def targetsNames : List Expr → List Str
    | [] => []
    | e :: es => targetNames e ++ targetsNames es
end

def aliasBinds (a : Alias) : Str :=
  match a.asname with
  | some n => n
  | none => (splitDots a.name).headD []

def withTargets : List WithItem → List Str
  | [] => []
  | w :: ws => (match w.target with | some t => targetNames t | none => []) ++ withTargets ws

mutual
  /-- names bound by a statement in the scope that directly contains it (the symbol table's view) -/
  def boundStmt : Stmt → List Str
    | .assign ts _ => targetsNames ts
    | .augAssign t _ => targetNames t
    | .annAssign (.name n) _ _ => [n]
    | .annAssign _ _ _ => []
    | .import_ names => names.map aliasBinds
    | .importFrom _ names => names.map aliasBinds
    | .funcDef n _ _ _ _ => [n]
    | .classDef n _ _ _ => [n]
    | .for_ t _ b o => targetNames t ++ boundStmts b ++ boundStmts o
    | .while_ _ b o => boundStmts b ++ boundStmts o
    | .if_ _ b o => boundStmts b ++ boundStmts o
    | .with_ items b => withTargets items ++ boundStmts b
    | .try_ b hs o f => boundStmts b ++ boundHandlers hs ++ boundStmts o ++ boundStmts f
    | .delete ts => targetsNames ts
    | .located _ s => boundStmt s
    | _ => []
  def boundStmts : List Stmt → List Str
    | [] => []
    | s :: ss => boundStmt s ++ boundStmts ss
  def boundHandlers : List Handler → List Str
    | [] => []
    | .mk _ _ name b :: hs => (match name with | some n => [n] | none => []) ++ boundStmts b ++ boundHandlers hs
end

def paramNames : List Param → List Str
  | [] => []
  | .mk n _ :: ps => n :: paramNames ps

def Args.names : Args → List Str
  | .mk args _ vararg kwonly _ kwarg =>
    paramNames args ++ paramNames kwonly ++ (match vararg with | some v => [v] | none => [])
      ++ (match kwarg with | some v => [v] | none => [])

def gensTargets : List Gen → List Str
  | [] => []
  | .mk t _ _ :: gs => targetNames t ++ gensTargets gs

/-! ### state helpers -/

def truthy : RVal → Bool
  | .bool b => b
  | .none => false
  | .seq [] => false
  | _ => true

def isSubmodName (p : Str) : Bool :=
  match p with
  | 's' :: d :: ds => (d :: ds).all Char.isDigit
  | _ => false

def universeRoots : List Str := ["pa".toList, "pb".toList]
def universeMembers : List Str := ["m1".toList, "m2".toList, "d1".toList, "d2".toList]

/-- does the finder of the synthetic universe know this dotted module name -/
def inUniverse (parts : List Str) : Bool :=
  match parts with
  | [] => false
  | r :: ps => universeRoots.contains r && ps.all isSubmodName

def allocCells (names : List Str) : X Frame := fun s =>
  let base := s.cells.length
  let fr := (names.eraseDups.zipIdx).map (fun (n, i) => (n, base + i))
  ({ s with cells := s.cells ++ fr.map (fun _ => none) }, .ok fr)

def setCell (i : Nat) (v : Option RVal) : X Unit := X.modify fun s => { s with cells := s.cells.set i v }

def frameLookup (n : Str) : List Frame → Option Nat
  | [] => none
  | f :: fs => match assocGet n f with
    | some i => some i
    | none => frameLookup n fs

def addOnceP (x : Nat × Nat) (l : List (Nat × Nat)) : List (Nat × Nat) := if l.contains x then l else l ++ [x]

/-- a successful read of a global whose binding was created by an import statement records that import -/
def noteUse (n : Str) (s : XState) : XState :=
  match assocGet n s.origins with
  | some o => { s with usedImps := addOnceP o s.usedImps }
  | none => s

def globalLookup (n : Str) : X RVal := fun s =>
  match assocGet n s.globals with
  | some v => (noteUse n s, .ok v)
  | none =>
    if s.builtins.contains n then (s, .ok (if n = "_K".toList then .opq else .rigid))
    else raiseName n s

def cellLookup (n : Str) (i : Nat) : X RVal := fun s =>
  match s.cells.getD i none with
  | some v => (s, .ok v)
  | none => raiseLocal n s

/-- read name `n` in scope `ctx` -/
def readName (ctx : Ctx) (n : Str) : X RVal :=
  match ctx.kind with
  | .module => globalLookup n
  | .func =>
    match frameLookup n ctx.frames with
    | some i => cellLookup n i
    | none => globalLookup n
  | .cls locals => fun s =>
    match assocGet n (s.clsStack.headD []) with
    | some v => (s, .ok v)
    | none =>
      if locals.contains n then globalLookup n s
      else match frameLookup n ctx.frames with
        | some i => cellLookup n i s
        | none => globalLookup n s

def bindName (ctx : Ctx) (n : Str) (v : RVal) : X Unit :=
  match ctx.kind with
  | .module => X.modify fun s => { s with globals := assocSet n v s.globals, origins := assocDel n s.origins }
  | .func =>
    match assocGet n (ctx.frames.headD []) with
    | some i => setCell i (some v)
    | none => X.modify fun s => { s with globals := assocSet n v s.globals, origins := assocDel n s.origins }   -- only reachable with `global` (extension)
  | .cls _ => X.modify fun s =>
    match s.clsStack with
    | ns :: r => { s with clsStack := assocSet n v ns :: r }
    | [] => s

/-- binding made by alias number `idx` of the import statement on the current line -/
def bindImport (ctx : Ctx) (n : Str) (v : RVal) (idx : Nat) : X Unit :=
  match ctx.kind with
  | .module => X.modify fun s => { s with globals := assocSet n v s.globals, origins := assocSet n (s.line, idx) s.origins }
  | _ => bindName ctx n v

def unbindName (ctx : Ctx) (n : Str) : X Unit :=
  match ctx.kind with
  | .module => X.modify fun s => { s with globals := assocDelAll n s.globals, origins := assocDel n s.origins }
  | .func =>
    match assocGet n (ctx.frames.headD []) with
    | some i => setCell i none
    | none => pure ()
  | .cls _ => X.modify fun s =>
    match s.clsStack with
    | ns :: r => { s with clsStack := assocDel n ns :: r }
    | [] => s

def getModAttr (id : Nat) (a : Str) : X RVal := fun s =>
  match s.mods[id]? with
  | none => raiseOther s
  | some m =>
    match assocGet a m.attrs with
    | some v => (s, .ok v)
    | none => if m.registry then raiseAttr (m.name ++ '.' :: a) s else raiseOther s

def setModAttr (id : Nat) (a : Str) (v : RVal) : X Unit := X.modify fun s =>
  { s with mods := s.mods.modify id (fun m => { m with attrs := assocSet a v m.attrs }) }

def getAttr (v : RVal) (a : Str) : X RVal :=
  match v with
  | .opq => pure .opq
  | .mod id => getModAttr id a
  | .cls id => fun s =>
    match assocGet a (s.classes.getD id []) with
    | some v => (s, .ok v)
    | none => raiseOther s
  | _ => raiseOther

def setAttr (v : RVal) (a : Str) (x : RVal) : X Unit :=
  match v with
  | .opq => pure ()
  | .mod id => setModAttr id a x
  | .cls id => X.modify fun s => { s with classes := s.classes.modify id (assocSet a x) }
  | _ => raiseOther

/-- elements produced by iterating a value -/
def iterate (v : RVal) : X (List RVal) :=
  match v with
  | .seq vs => pure vs
  | .opq => pure [.opq]
  | .mod _ => pure [.opq]
  | _ => raiseOther

def binop (l r : RVal) : X RVal :=
  match l, r with
  | .opq, _ => pure .opq
  | .mod _, _ => pure .opq
  | _, .opq => pure .opq
  | _, .mod _ => pure .opq
  | .seq a, .seq b => pure (.seq (a ++ b))
  | _, _ => raiseOther

def subscriptGet (v : RVal) : X RVal :=
  match v with
  | .opq => pure .opq
  | .mod _ => pure .opq
  | _ => raiseOther

def enterCtx (v : RVal) : X RVal :=
  match v with
  | .opq => pure .opq
  | .mod _ => pure .opq
  | _ => raiseOther

/-- load one module of the universe (parent already loaded), attach it to its parent -/
def loadModule (dotted : Str) : X Nat := fun s =>
  match assocGet dotted s.loaded with
  | some id => (s, .ok id)
  | none =>
    let parts := splitDots dotted
    if !inUniverse parts then raiseOther s
    else
      let id := s.mods.length
      let m : ModObj := { name := dotted, attrs := universeMembers.map (fun a => (a, RVal.opq)) }
      let s := { s with mods := s.mods ++ [m], loaded := s.loaded ++ [(dotted, id)] }
      match parts.dropLast with
      | [] => (s, .ok id)
      | pp =>
        match assocGet (joinDots pp) s.loaded with
        | some pid => (({ s with mods := s.mods.modify pid (fun pm => { pm with attrs := assocSet (parts.getLastD []) (.mod id) pm.attrs }) }), .ok id)
        | none => (s, .ok id)

/-- `import a.b.c`: load `a`, `a.b`, `a.b.c` in turn; returns (top module, leaf module) -/
def importChain : List (List Str) → Option Nat → X (Option Nat × Option Nat)
  | [], top => pure (top, none)
  | [p], top => do
    let id ← loadModule (joinDots p)
    pure (some (top.getD id), some id)
  | p :: ps, top => do
    let id ← loadModule (joinDots p)
    importChain ps (some (top.getD id))

def delNames (ctx : Ctx) : List Str → X Unit
  | [] => pure ()
  | n :: r => do unbindName ctx n; delNames ctx r

/-- `import a.b.c [as n]` after the modules are loaded: bind `n` to the leaf module, or the head name to the top module -/
def bindAlias (ctx : Ctx) (a : Alias) (tl : Option Nat × Option Nat) (idx : Nat) : X Unit :=
  match a.asname, tl with
  | some n, (_, some leaf) => bindImport ctx n (.mod leaf) idx
  | none, (some top, _) => bindImport ctx (aliasBinds a) (.mod top) idx
  | _, _ => raiseOther

/-- `from m import a`: an attribute of the module, else the sub-module `m.a` of the universe -/
def fromValue (s : XState) (m : Str) (leaf : Nat) (a : Alias) : X RVal :=
  match assocGet a.name ((s.mods[leaf]?.map (·.attrs)).getD []) with
  | some v => pure v
  | none =>
    if isSubmodName a.name then do let id ← loadModule (m ++ '.' :: a.name); pure (RVal.mod id)
    else raiseOther

def unpack (v : RVal) (n : Nat) : X (List RVal) :=
  match v with
  | .seq vs => if vs.length = n then pure vs else raiseOther
  | .opq => if n = 1 then pure [.opq] else raiseOther
  | .mod _ => if n = 1 then pure [.opq] else raiseOther
  | _ => raiseOther

def setItem (v : RVal) : X Unit :=
  match v with
  | .opq => pure ()
  | .mod _ => pure ()
  | _ => raiseOther

/-- calling the universal dummy: identity on a single function/class argument (decorator use), else the dummy -/
def dummyCall (avs : List RVal) : RVal :=
  match avs with
  | [.func i] => .func i
  | [.cls i] => .cls i
  | _ => .opq

def addFunc (c : Closure) : X RVal := fun s => ({ s with funcs := s.funcs ++ [c] }, .ok (.func s.funcs.length))

def noteCall : X Unit := X.modify fun s => if s.atEnd then s else { s with early := true }

def kwonlyValues : List (Str × Option RVal) → X (List (Str × RVal))
  | [] => pure []
  | (n, some v) :: r => do let t ← kwonlyValues r; pure ((n, v) :: t)
  | (_, none) :: _ => raiseOther

def bindCells (fr : Frame) : List (Str × RVal) → X Unit
  | [] => pure ()
  | (n, v) :: r => do
    match assocGet n fr with
    | some i => setCell i (some v)
    | none => pure ()
    bindCells fr r

def zipOpt : List (Option Expr) → List (Option RVal) → List Param → List (Str × Option RVal)
  | _, v :: vs, .mk n _ :: ps => (n, v) :: zipOpt [] vs ps
  | _, _, _ => []

def annotExprs : List Param → List Expr
  | [] => []
  | .mk _ (some a) :: ps => a :: annotExprs ps
  | .mk _ none :: ps => annotExprs ps

def isExceptionName : Expr → Bool
  | .name n => n = "Exception".toList
  | _ => false

mutual
  def evalExpr : Nat → Ctx → Expr → X RVal
    | 0, _, _ => X.throw .fuel
    | f + 1, ctx, e =>
      match e with
      | .name n => readName ctx n
      | .attr b a => do let v ← evalExpr f ctx b; getAttr v a
      | .call fn args => do
        let fv ← evalExpr f ctx fn
        let avs ← evalExprs f ctx args
        callVal f fv avs
      | .const => pure .opq
      | .bool b => pure (.bool b)
      | .str _ => pure .rigid
      | .binop l r => do let a ← evalExpr f ctx l; let b ← evalExpr f ctx r; binop a b
      | .lambda a body => mkClosure f ctx a (.expr body) (Args.names a)
      | .comp k elts gens => evalComp f ctx k elts gens
      | .ifExp t a b => do
        let tv ← evalExpr f ctx t
        if truthy tv then evalExpr f ctx a else evalExpr f ctx b
      | .tuple es => do let vs ← evalExprs f ctx es; pure (.seq vs)
      | .list es => do let vs ← evalExprs f ctx es; pure (.seq vs)
      | .subscript v i => do let a ← evalExpr f ctx v; let _ ← evalExpr f ctx i; subscriptGet a

  def evalExprs : Nat → Ctx → List Expr → X (List RVal)
    | 0, _, _ => X.throw .fuel
    | _ + 1, _, [] => pure []
    | f + 1, ctx, e :: es => do let v ← evalExpr f ctx e; let vs ← evalExprs f ctx es; pure (v :: vs)

  def evalOptExprs : Nat → Ctx → List (Option Expr) → X (List (Option RVal))
    | 0, _, _ => X.throw .fuel
    | _ + 1, _, [] => pure []
    | f + 1, ctx, none :: es => do let vs ← evalOptExprs f ctx es; pure (none :: vs)
    | f + 1, ctx, some e :: es => do let v ← evalExpr f ctx e; let vs ← evalOptExprs f ctx es; pure (some v :: vs)

  /-- evaluate defaults (positional, then keyword-only) in the defining scope and build the closure -/
  def mkClosure : Nat → Ctx → Args → FBody → List Str → X RVal
    | 0, _, _, _, _ => X.throw .fuel
    | f + 1, ctx, .mk args defaults vararg kwonly kwdefaults kwarg, body, locals => do
      let dvs ← evalExprs f ctx defaults
      let kvs ← evalOptExprs f ctx kwdefaults
      addFunc { params := paramNames args, ndefaults := dvs.length, defaults := dvs, vararg := vararg,
                kwonly := zipOpt [] kvs kwonly, kwarg := kwarg, locals := locals, body := body, env := ctx.frames }

  def callVal : Nat → RVal → List RVal → X RVal
    | 0, _, _ => X.throw .fuel
    | f + 1, fv, avs =>
      match fv with
      | .func id => callFunc f id avs
      | .opq => pure (dummyCall avs)
      | .mod _ => pure (dummyCall avs)
      | _ => raiseOther

  def callFunc : Nat → Nat → List RVal → X RVal
    | 0, _, _ => X.throw .fuel
    | f + 1, id, avs => do
      let s ← X.get
      match s.funcs[id]? with
      | none => raiseOther
      | some c =>
        noteCall
        let np := c.params.length
        let nreq := np - c.ndefaults
        if avs.length < nreq then raiseOther
        else if avs.length > np ∧ c.vararg.isNone then raiseOther
        else do
          let kws ← kwonlyValues c.kwonly
          let fr ← allocCells c.locals
          let pos := (c.params.zipIdx).map (fun (n, i) => (n, if i < avs.length then avs.getD i .none else c.defaults.getD (i - nreq) .none))
          bindCells fr pos
          bindCells fr kws
          (match c.vararg with | some v => bindCells fr [(v, .seq (avs.drop np))] | none => pure ())
          (match c.kwarg with | some v => bindCells fr [(v, .seq [])] | none => pure ())
          let ctx : Ctx := { kind := .func, frames := fr :: c.env }
          match c.body with
          | .expr e => evalExpr f ctx e
          | .stmts b => do
            let fl ← execStmts f ctx b
            match fl with
            | .ret v => pure v
            | .normal => pure .none

  def evalComp : Nat → Ctx → CompKind → List Expr → List Gen → X RVal
    | 0, _, _, _, _ => X.throw .fuel
    | _ + 1, _, _, _, [] => raiseOther
    | f + 1, ctx, k, elts, .mk t it ifs :: gs => do
      let itv ← evalExpr f ctx it                    -- the first iterable is evaluated in the enclosing scope
      let items ← iterate itv
      let fr ← allocCells (gensTargets (.mk t it ifs :: gs))
      let ctx' : Ctx := { kind := .func, frames := fr :: ctx.frames }
      let vs ← compLoop f ctx' elts t ifs gs items
      pure (match k with | .list => .seq vs | _ => .opq)

  def compLoop : Nat → Ctx → List Expr → Expr → List Expr → List Gen → List RVal → X (List RVal)
    | 0, _, _, _, _, _, _ => X.throw .fuel
    | _ + 1, _, _, _, _, _, [] => pure []
    | f + 1, ctx, elts, t, ifs, gs, x :: xs => do
      bindTarget f ctx t x
      let ok ← evalConds f ctx ifs
      let r1 ← if ok then compRest f ctx elts gs else pure []
      let r2 ← compLoop f ctx elts t ifs gs xs
      pure (r1 ++ r2)

  def compRest : Nat → Ctx → List Expr → List Gen → X (List RVal)
    | 0, _, _, _ => X.throw .fuel
    | f + 1, ctx, elts, [] => do let _ ← evalExprs f ctx elts; pure [.opq]
    | f + 1, ctx, elts, .mk t it ifs :: gs => do
      let itv ← evalExpr f ctx it
      let items ← iterate itv
      compLoop f ctx elts t ifs gs items

  def evalConds : Nat → Ctx → List Expr → X Bool
    | 0, _, _ => X.throw .fuel
    | _ + 1, _, [] => pure true
    | f + 1, ctx, c :: cs => do
      let v ← evalExpr f ctx c
      if truthy v then evalConds f ctx cs else pure false

  def bindTarget : Nat → Ctx → Expr → RVal → X Unit
    | 0, _, _, _ => X.throw .fuel
    | f + 1, ctx, t, v =>
      match t with
      | .name n => bindName ctx n v
      | .tuple ts => do let vs ← unpack v ts.length; bindTargets f ctx ts vs
      | .list ts => do let vs ← unpack v ts.length; bindTargets f ctx ts vs
      | .attr b a => do let bv ← evalExpr f ctx b; setAttr bv a v
      | .subscript b i => do let bv ← evalExpr f ctx b; let _ ← evalExpr f ctx i; setItem bv
      | _ => raiseOther

  def bindTargets : Nat → Ctx → List Expr → List RVal → X Unit
    | 0, _, _, _ => X.throw .fuel
    | f + 1, ctx, t :: ts, v :: vs => do bindTarget f ctx t v; bindTargets f ctx ts vs
    | _ + 1, _, _, _ => pure ()

  /-- `t1 = t2 = … = v` -/
  def assignAll : Nat → Ctx → List Expr → RVal → X Unit
    | 0, _, _, _ => X.throw .fuel
    | _ + 1, _, [], _ => pure ()
    | f + 1, ctx, t :: ts, v => do bindTarget f ctx t v; assignAll f ctx ts v

  def applyDecos : Nat → List RVal → RVal → X RVal
    | 0, _, _ => X.throw .fuel
    | _ + 1, [], v => pure v
    | f + 1, d :: ds, v => do let v' ← callVal f d [v]; applyDecos f ds v'

  def withItems : Nat → Ctx → List WithItem → X Unit
    | 0, _, _ => X.throw .fuel
    | _ + 1, _, [] => pure ()
    | f + 1, ctx, w :: ws => do
      let cv ← evalExpr f ctx w.ctx
      let ev ← enterCtx cv
      (match w.target with | some t => bindTarget f ctx t ev | none => pure ())
      withItems f ctx ws

  def forLoop : Nat → Ctx → Expr → List Stmt → List RVal → X Flow
    | 0, _, _, _, _ => X.throw .fuel
    | _ + 1, _, _, _, [] => pure .normal
    | f + 1, ctx, t, body, x :: xs => do
      bindTarget f ctx t x
      let fl ← execStmts f ctx body
      match fl with
      | .ret v => pure (.ret v)
      | .normal => forLoop f ctx t body xs

  def importAliases : Nat → Ctx → Nat → List Alias → X Unit
    | 0, _, _, _ => X.throw .fuel
    | _ + 1, _, _, [] => pure ()
    | f + 1, ctx, idx, a :: r => do
      let tl ← importChain (prefixes (splitDots a.name)) none
      bindAlias ctx a tl idx
      importAliases f ctx (idx + 1) r

  def importFromAliases : Nat → Ctx → Str → Nat → Nat → List Alias → X Unit
    | 0, _, _, _, _, _ => X.throw .fuel
    | _ + 1, _, _, _, _, [] => pure ()
    | f + 1, ctx, m, leaf, idx, a :: r => do
      let s ← X.get
      let v ← fromValue s m leaf a
      bindImport ctx (aliasBinds a) v idx
      importFromAliases f ctx m leaf (idx + 1) r

  def runHandler : Nat → Ctx → Handler → X Flow
    | 0, _, _ => X.throw .fuel
    | f + 1, ctx, .mk _ type name hbody => do
      (match type with | some t => do let _ ← evalExpr f ctx t; pure () | none => pure ())
      match name with
      | none => execStmts f ctx hbody
      | some n => do
        bindName ctx n .rigid
        let r ← X.attempt (execStmts f ctx hbody)
        unbindName ctx n
        match r with
        | .ok fl => pure fl
        | .error e => X.throw e

  def execStmt : Nat → Ctx → Stmt → X Flow
    | 0, _, _ => X.throw .fuel
    | f + 1, ctx, s =>
      match s with
      | .expr e => do let _ ← evalExpr f ctx e; pure .normal
      | .assign ts v => do let x ← evalExpr f ctx v; assignAll f ctx ts x; pure .normal
      | .augAssign t v =>
        match t with
        | .name n => do
          let cur ← readName ctx n
          let x ← evalExpr f ctx v
          let r ← binop cur x
          bindName ctx n r
          pure .normal
        | .attr b a => do
          let bv ← evalExpr f ctx b
          let cur ← getAttr bv a
          let x ← evalExpr f ctx v
          let r ← binop cur x
          setAttr bv a r
          pure .normal
        | .subscript b i => do
          let bv ← evalExpr f ctx b
          let _ ← evalExpr f ctx i
          let cur ← subscriptGet bv
          let x ← evalExpr f ctx v
          let _ ← binop cur x
          setItem bv
          pure .normal
        | _ => raiseOther
      | .annAssign t ann v => do
        (match v with
         | some e => do let x ← evalExpr f ctx e; bindTarget f ctx t x
         | none =>
           match t with
           | .attr b _ => do let _ ← evalExpr f ctx b; pure ()
           | .subscript b i => do let _ ← evalExpr f ctx b; let _ ← evalExpr f ctx i; pure ()
           | _ => pure ())
        (match ctx.kind with
         | .func => pure ()                       -- annotations of locals are not evaluated
         | _ => do let _ ← evalExpr f ctx ann; pure ())
        pure .normal
      | .import_ names => do importAliases f ctx 0 names; pure .normal
      | .importFrom m names => do
        let tl ← importChain (prefixes (splitDots m)) none
        match tl with
        | (_, some leaf) => do importFromAliases f ctx m leaf 0 names; pure .normal
        | _ => raiseOther
      | .funcDef name a body decos returns => do
        let dvs ← evalExprs f ctx decos
        let fv ← mkClosure f ctx a (.stmts body) (Args.names a ++ boundStmts body)
        let _ ← (match a with
          | .mk args _ _ kwonly _ _ => evalExprs f ctx (annotExprs args ++ annotExprs kwonly))
        (match returns with | some r => do let _ ← evalExpr f ctx r; pure () | none => pure ())
        let v ← applyDecos f dvs.reverse fv
        bindName ctx name v
        pure .normal
      | .classDef name bases body decos => do
        let dvs ← evalExprs f ctx decos
        let _ ← evalExprs f ctx bases
        X.modify fun s => { s with clsStack := [] :: s.clsStack }
        let r ← X.attempt (execStmts f { kind := .cls (boundStmts body), frames := ctx.frames } body)
        let s ← X.get
        let ns := s.clsStack.headD []
        X.modify fun s => { s with clsStack := s.clsStack.tail }
        match r with
        | .error e => X.throw e
        | .ok _ => do
          let s ← X.get
          X.modify fun s => { s with classes := s.classes ++ [ns] }
          let v ← applyDecos f dvs.reverse (.cls s.classes.length)
          bindName ctx name v
          pure .normal
      | .for_ t it body orelse => do
        let itv ← evalExpr f ctx it
        let items ← iterate itv
        let fl ← forLoop f ctx t body items
        match fl with
        | .ret v => pure (.ret v)
        | .normal => execStmts f ctx orelse
      | .while_ t body orelse => do
        let tv ← evalExpr f ctx t
        if truthy tv then execStmts f ctx body else execStmts f ctx orelse
      | .if_ t body orelse => do
        let tv ← evalExpr f ctx t
        if truthy tv then execStmts f ctx body else execStmts f ctx orelse
      | .with_ items body => do withItems f ctx items; execStmts f ctx body
      | .try_ body hs orelse final => do
        let r ← X.attempt (execStmts f ctx body)
        let r2 ← (match r with
          | .ok (.ret v) => pure (.ok (.ret v))
          | .ok .normal => X.attempt (execStmts f ctx orelse)
          | .error e =>
            match hs with
            | [] => pure (.error e)
            | h :: _ => if e = .fuel then pure (.error e) else X.attempt (runHandler f ctx h))
        let r3 ← X.attempt (execStmts f ctx final)
        match r3 with
        | .error e => X.throw e
        | .ok (.ret v) => pure (.ret v)
        | .ok .normal =>
          match r2 with
          | .ok fl => pure fl
          | .error e => X.throw e
      | .return_ e =>
        match e with
        | none => pure (.ret .none)
        | some e => do let v ← evalExpr f ctx e; pure (.ret v)
      | .pass => pure .normal
      | .raise_ e => do
        let _ ← evalExpr f ctx e
        if isExceptionName e then X.throw .user else raiseOther
      | .delete ts => do
        let _ ← evalExprs f ctx (ts.filter (fun t => match t with | .name _ => true | _ => false))
        delNames ctx (targetsNames ts)
        pure .normal
      | .global_ _ => pure .normal
      | .nonlocal_ _ => pure .normal
      | .located l s => do X.modify (fun st => { st with line := l }); execStmt f ctx s

  def execStmts : Nat → Ctx → List Stmt → X Flow
    | 0, _, _ => X.throw .fuel
    | _ + 1, _, [] => pure .normal
    | f + 1, ctx, s :: ss => do
      let fl ← execStmt f ctx s
      match fl with
      | .ret v => pure (.ret v)
      | .normal => execStmts f ctx ss
end

/-- run `body`, then (module level finished) the trailing `calls` -/
def runProgram (fuel : Nat) (body calls : List Stmt) : X Unit := do
  let _ ← execStmts fuel {} body
  X.modify fun s => { s with atEnd := true }
  let _ ← execStmts fuel {} calls
  pure ()

end Pfb.PyCore
